import AgeModel.Crypto.Sha256
/-
  MGF1-SHA-256 and RSAES-OAEP (RFC 8017 §7.1) with SHA-256 as both the label hash
  and the MGF1 hash. Execution only; `Nat` arithmetic (GMP-backed when compiled).

  Findings about Go 1.23.5 `crypto/rsa` (verified by primtest with a recording reader):

  * `rsa.EncryptOAEP(sha256.New(), tape, pub, msg, label)` performs exactly ONE
    `io.ReadFull(tape, seed)` of `hash.Size()` = 32 bytes, i.e. a single `Read` call with
    a 32-byte buffer, after the length check (so a too-long message consumes nothing).
    It does NOT call `randutil.MaybeReadByte`. The 32 bytes are the OAEP seed verbatim.
    Hence `rsaOaepEncrypt n e seed msg label` equals Go's output byte for byte.
  * `rsa.DecryptOAEP` accepts a ciphertext SHORTER than k bytes (it only rejects
    `len(ct) > k`), interpreting it as a big-endian integer; it rejects integers ≥ n.
    `rsaOaepDecrypt` mirrors that (this is laxer than RFC 8017 step 1.b, which
    demands `len(ct) = k`), because age passes the stanza body straight to Go.
  * `rsa.DecryptOAEP` rejects when k < 2*hLen + 2 = 66.
-/
namespace AgeModel.Crypto.Impl

def mgf1Sha256BA (seed : ByteArray) (len : Nat) : ByteArray := Id.run do
  let mut out := ByteArray.emptyWithCapacity (len + 32)
  for c in [0:(len + 31) / 32] do
    out := out ++ sha256BA (pushBe32 seed c.toUInt32)
  return out.extract 0 len

def rsaOaepEncryptBA (n e : Nat) (seed msg label : ByteArray) : Option ByteArray :=
  let k := natByteLen n
  if seed.size != 32 then none else
  if msg.size + 66 > k then none else
  let lHash := sha256BA label
  let db := (lHash ++ zeros (k - msg.size - 66)).push 1 ++ msg   -- k - 33 bytes
  let maskedDB := xorBA db (mgf1Sha256BA seed (k - 33))
  let maskedSeed := xorBA seed (mgf1Sha256BA maskedDB 32)
  let em := (ByteArray.empty.push 0) ++ maskedSeed ++ maskedDB
  let c := powMod (beToNat em) e n
  some (natToBe c k)

/-- index of the 0x01 separator in `rest`, provided everything before it is 0x00 -/
def oaepFindSep (rest : ByteArray) : Option Nat := Id.run do
  for i in [0:rest.size] do
    let b := rest[i]!
    if b == 1 then return some i
    if b != 0 then return none
  return none

def rsaOaepDecryptBA (n d : Nat) (ct label : ByteArray) : Option ByteArray :=
  let k := natByteLen n
  if ct.size > k || k < 66 then none else
  let c := beToNat ct
  if c >= n then none else
  let em := natToBe (powMod c d n) k
  let maskedSeed := em.extract 1 33
  let maskedDB := em.extract 33 k
  let seed := xorBA maskedSeed (mgf1Sha256BA maskedDB 32)
  let db := xorBA maskedDB (mgf1Sha256BA seed (k - 33))
  let lHash := sha256BA label
  let rest := db.extract 32 db.size
  match oaepFindSep rest with
  | none => none
  | some i =>
    if em[0]! == 0 && baEq (db.extract 0 32) lHash then some (rest.extract (i + 1) rest.size) else none

end AgeModel.Crypto.Impl
