import AgeModel.Crypto.Util
/-
  SHA-512 (FIPS 180-4) over ByteArray. Execution only.
  Only used on short inputs (ed25519 seeds), so no special effort on speed.
-/
namespace AgeModel.Crypto.Impl

def sha512K : Array UInt64 := #[
0x428a2f98d728ae22,0x7137449123ef65cd,0xb5c0fbcfec4d3b2f,0xe9b5dba58189dbbc,
0x3956c25bf348b538,0x59f111f1b605d019,0x923f82a4af194f9b,0xab1c5ed5da6d8118,
0xd807aa98a3030242,0x12835b0145706fbe,0x243185be4ee4b28c,0x550c7dc3d5ffb4e2,
0x72be5d74f27b896f,0x80deb1fe3b1696b1,0x9bdc06a725c71235,0xc19bf174cf692694,
0xe49b69c19ef14ad2,0xefbe4786384f25e3,0x0fc19dc68b8cd5b5,0x240ca1cc77ac9c65,
0x2de92c6f592b0275,0x4a7484aa6ea6e483,0x5cb0a9dcbd41fbd4,0x76f988da831153b5,
0x983e5152ee66dfab,0xa831c66d2db43210,0xb00327c898fb213f,0xbf597fc7beef0ee4,
0xc6e00bf33da88fc2,0xd5a79147930aa725,0x06ca6351e003826f,0x142929670a0e6e70,
0x27b70a8546d22ffc,0x2e1b21385c26c926,0x4d2c6dfc5ac42aed,0x53380d139d95b3df,
0x650a73548baf63de,0x766a0abb3c77b2a8,0x81c2c92e47edaee6,0x92722c851482353b,
0xa2bfe8a14cf10364,0xa81a664bbc423001,0xc24b8b70d0f89791,0xc76c51a30654be30,
0xd192e819d6ef5218,0xd69906245565a910,0xf40e35855771202a,0x106aa07032bbd1b8,
0x19a4c116b8d2d0c8,0x1e376c085141ab53,0x2748774cdf8eeb99,0x34b0bcb5e19b48a8,
0x391c0cb3c5c95a63,0x4ed8aa4ae3418acb,0x5b9cca4f7763e373,0x682e6ff3d6b2b8a3,
0x748f82ee5defb2fc,0x78a5636f43172f60,0x84c87814a1f0ab72,0x8cc702081a6439ec,
0x90befffa23631e28,0xa4506cebde82bde9,0xbef9a3f7b2c67915,0xc67178f2e372532b,
0xca273eceea26619c,0xd186b8c721c0c207,0xeada7dd6cde0eb1e,0xf57d4f7fee6ed178,
0x06f067aa72176fba,0x0a637dc5a2c898a6,0x113f9804bef90dae,0x1b710b35131c471b,
0x28db77f523047d84,0x32caab7b40c72493,0x3c9ebe0a15c9bebc,0x431d67c49c100d4c,
0x4cc5d4becb3e42b6,0x597f299cfc657e2a,0x5fcb6fab3ad6faec,0x6c44198c4a475817]

structure H8x64 where
  a : UInt64
  b : UInt64
  c : UInt64
  d : UInt64
  e : UInt64
  f : UInt64
  g : UInt64
  h : UInt64

def sha512Init : H8x64 :=
  ⟨0x6a09e667f3bcc908, 0xbb67ae8584caa73b, 0x3c6ef372fe94f82b, 0xa54ff53a5f1d36f1,
   0x510e527fade682d1, 0x9b05688c2b3e6c1f, 0x1f83d9abfb41bd6b, 0x5be0cd19137e2179⟩

def sha512Rounds (w : Array UInt64) (i : Nat) (a b c d e f g h : UInt64) : H8x64 :=
  if i < 80 then
    let s1 := rotr64 e 14 ^^^ rotr64 e 18 ^^^ rotr64 e 41
    let ch := (e &&& f) ^^^ ((~~~ e) &&& g)
    let t1 := h + s1 + ch + sha512K[i]! + w[i]!
    let s0 := rotr64 a 28 ^^^ rotr64 a 34 ^^^ rotr64 a 39
    let mj := (a &&& b) ^^^ (a &&& c) ^^^ (b &&& c)
    let t2 := s0 + mj
    sha512Rounds w (i+1) (t1 + t2) a b c (d + t1) e f g
  else ⟨a, b, c, d, e, f, g, h⟩
termination_by 80 - i

def sha512Sched (m : ByteArray) (off : Nat) : Array UInt64 := Id.run do
  let mut w : Array UInt64 := Array.emptyWithCapacity 80
  for i in [0:16] do
    w := w.push (be64At m (off + 8*i))
  for i in [16:80] do
    let w15 := w[i-15]!
    let w2 := w[i-2]!
    let s0 := rotr64 w15 1 ^^^ rotr64 w15 8 ^^^ (w15 >>> 7)
    let s1 := rotr64 w2 19 ^^^ rotr64 w2 61 ^^^ (w2 >>> 6)
    w := w.push (w[i-16]! + s0 + w[i-7]! + s1)
  return w

def sha512Block (s : H8x64) (m : ByteArray) (off : Nat) : H8x64 :=
  let w := sha512Sched m off
  let t := sha512Rounds w 0 s.a s.b s.c s.d s.e s.f s.g s.h
  ⟨s.a + t.a, s.b + t.b, s.c + t.c, s.d + t.d, s.e + t.e, s.f + t.f, s.g + t.g, s.h + t.h⟩

/-- 0x80, zero fill, 128-bit big-endian bit length; `n` = message length in bytes. -/
def sha512Pad (n : Nat) : ByteArray :=
  let z := (111 + 128 - n % 128) % 128
  let bits := n * 8
  pushBe64 (pushBe64 ((ByteArray.empty.push 0x80) ++ zeros z) (bits >>> 64).toUInt64) bits.toUInt64

def sha512BA (m : ByteArray) : ByteArray := Id.run do
  let nfull := m.size / 128
  let mut s := sha512Init
  for b in [0:nfull] do
    s := sha512Block s m (b * 128)
  let tail := m.extract (nfull * 128) m.size ++ sha512Pad m.size
  for b in [0:tail.size / 128] do
    s := sha512Block s tail (b * 128)
  let mut out := ByteArray.emptyWithCapacity 64
  out := pushBe64 out s.a; out := pushBe64 out s.b; out := pushBe64 out s.c; out := pushBe64 out s.d
  out := pushBe64 out s.e; out := pushBe64 out s.f; out := pushBe64 out s.g; out := pushBe64 out s.h
  return out

end AgeModel.Crypto.Impl
