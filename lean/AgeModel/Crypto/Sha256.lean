import AgeModel.Crypto.Util
/-
  SHA-256 (FIPS 180-4) over ByteArray. Execution only.
-/
namespace AgeModel.Crypto.Impl

def sha256K : Array UInt32 := #[
0x428a2f98,0x71374491,0xb5c0fbcf,0xe9b5dba5,0x3956c25b,0x59f111f1,0x923f82a4,0xab1c5ed5,
0xd807aa98,0x12835b01,0x243185be,0x550c7dc3,0x72be5d74,0x80deb1fe,0x9bdc06a7,0xc19bf174,
0xe49b69c1,0xefbe4786,0x0fc19dc6,0x240ca1cc,0x2de92c6f,0x4a7484aa,0x5cb0a9dc,0x76f988da,
0x983e5152,0xa831c66d,0xb00327c8,0xbf597fc7,0xc6e00bf3,0xd5a79147,0x06ca6351,0x14292967,
0x27b70a85,0x2e1b2138,0x4d2c6dfc,0x53380d13,0x650a7354,0x766a0abb,0x81c2c92e,0x92722c85,
0xa2bfe8a1,0xa81a664b,0xc24b8b70,0xc76c51a3,0xd192e819,0xd6990624,0xf40e3585,0x106aa070,
0x19a4c116,0x1e376c08,0x2748774c,0x34b0bcb5,0x391c0cb3,0x4ed8aa4a,0x5b9cca4f,0x682e6ff3,
0x748f82ee,0x78a5636f,0x84c87814,0x8cc70208,0x90befffa,0xa4506ceb,0xbef9a3f7,0xc67178f2]

structure H8 where
  a : UInt32
  b : UInt32
  c : UInt32
  d : UInt32
  e : UInt32
  f : UInt32
  g : UInt32
  h : UInt32

def sha256Init : H8 :=
  ⟨0x6a09e667,0xbb67ae85,0x3c6ef372,0xa54ff53a,0x510e527f,0x9b05688c,0x1f83d9ab,0x5be0cd19⟩

/-- The 64 rounds as a tail-recursive loop over unboxed locals. -/
def sha256Rounds (w : Array UInt32) (i : Nat) (a b c d e f g h : UInt32) : H8 :=
  if i < 64 then
    let s1 := rotr32 e 6 ^^^ rotr32 e 11 ^^^ rotr32 e 25
    let ch := (e &&& f) ^^^ ((~~~ e) &&& g)
    let t1 := h + s1 + ch + sha256K[i]! + w[i]!
    let s0 := rotr32 a 2 ^^^ rotr32 a 13 ^^^ rotr32 a 22
    let mj := (a &&& b) ^^^ (a &&& c) ^^^ (b &&& c)
    let t2 := s0 + mj
    sha256Rounds w (i+1) (t1 + t2) a b c (d + t1) e f g
  else ⟨a, b, c, d, e, f, g, h⟩
termination_by 64 - i

def sha256Sched (m : ByteArray) (off : Nat) : Array UInt32 := Id.run do
  let mut w : Array UInt32 := Array.emptyWithCapacity 64
  for i in [0:16] do
    w := w.push (be32At m (off + 4*i))
  for i in [16:64] do
    let w15 := w[i-15]!
    let w2 := w[i-2]!
    let s0 := rotr32 w15 7 ^^^ rotr32 w15 18 ^^^ (w15 >>> 3)
    let s1 := rotr32 w2 17 ^^^ rotr32 w2 19 ^^^ (w2 >>> 10)
    w := w.push (w[i-16]! + s0 + w[i-7]! + s1)
  return w

def sha256Block (s : H8) (m : ByteArray) (off : Nat) : H8 :=
  let w := sha256Sched m off
  let t := sha256Rounds w 0 s.a s.b s.c s.d s.e s.f s.g s.h
  ⟨s.a + t.a, s.b + t.b, s.c + t.c, s.d + t.d, s.e + t.e, s.f + t.f, s.g + t.g, s.h + t.h⟩

/-- 0x80, zero fill, 64-bit big-endian bit length; `n` = message length in bytes. -/
def sha256Pad (n : Nat) : ByteArray :=
  let z := (55 + 64 - n % 64) % 64
  pushBe64 ((ByteArray.empty.push 0x80) ++ zeros z) (n * 8).toUInt64

def sha256BA (m : ByteArray) : ByteArray := Id.run do
  let nfull := m.size / 64
  let mut s := sha256Init
  for b in [0:nfull] do
    s := sha256Block s m (b * 64)
  let tail := m.extract (nfull * 64) m.size ++ sha256Pad m.size
  for b in [0:tail.size / 64] do
    s := sha256Block s tail (b * 64)
  let mut out := ByteArray.emptyWithCapacity 32
  out := pushBe32 out s.a; out := pushBe32 out s.b; out := pushBe32 out s.c; out := pushBe32 out s.d
  out := pushBe32 out s.e; out := pushBe32 out s.f; out := pushBe32 out s.g; out := pushBe32 out s.h
  return out

end AgeModel.Crypto.Impl
