import AgeModel.Crypto.Sha256
/-
  HMAC-SHA-256 (RFC 2104), HKDF-SHA-256 (RFC 5869), PBKDF2-HMAC-SHA-256 (RFC 8018).
  Execution only.
-/
namespace AgeModel.Crypto.Impl

/-- The 64-byte block-sized key: hashed if longer than a block, then zero padded. -/
def hmacKeyBlock (key : ByteArray) : ByteArray :=
  let k := if key.size > 64 then sha256BA key else key
  k ++ zeros (64 - k.size)

def hmacSha256BA (key msg : ByteArray) : ByteArray :=
  let k := hmacKeyBlock key
  let ipad := mapBA (· ^^^ 0x36) k
  let opad := mapBA (· ^^^ 0x5c) k
  sha256BA (opad ++ sha256BA (ipad ++ msg))

/-- HMAC with the pads already computed (used by PBKDF2 inner loop). -/
@[inline] def hmacWithPads (ipad opad msg : ByteArray) : ByteArray :=
  sha256BA (opad ++ sha256BA (ipad ++ msg))

/-- RFC 5869. Empty salt means HashLen zero bytes (which HMAC key padding makes
    indistinguishable from the empty key anyway). -/
def hkdfSha256BA (ikm salt info : ByteArray) (len : Nat) : ByteArray := Id.run do
  let salt := if salt.size == 0 then zeros 32 else salt
  let prk := hmacSha256BA salt ikm
  let mut t := ByteArray.empty
  let mut okm := ByteArray.emptyWithCapacity (len + 32)
  for i in [1:(len + 31) / 32 + 1] do
    t := hmacSha256BA prk ((t ++ info).push i.toUInt8)
    okm := okm ++ t
  return okm.extract 0 len

def pbkdf2Sha256BA (password salt : ByteArray) (iter dkLen : Nat) : ByteArray := Id.run do
  let k := hmacKeyBlock password
  let ipad := mapBA (· ^^^ 0x36) k
  let opad := mapBA (· ^^^ 0x5c) k
  let nblk := (dkLen + 31) / 32
  let mut out := ByteArray.emptyWithCapacity (nblk * 32)
  for bi in [1:nblk + 1] do
    let mut u := hmacWithPads ipad opad (pushBe32 salt bi.toUInt32)
    let mut t := u
    for _ in [1:iter] do
      u := hmacWithPads ipad opad u
      t := xorBA t u
    out := out ++ t
  return out.extract 0 dkLen

end AgeModel.Crypto.Impl
