/-
  Execution-only helpers shared by the crypto primitives.
  Core Lean only. Nothing here is meant to be reasoned about; correctness is
  established by differential testing against Go (see /verif/harness/cmd/primtest).
-/
namespace AgeModel.Crypto.Impl

@[inline] def toBA (l : List UInt8) : ByteArray := l.toByteArray
/-- built back to front, so no intermediate reversed list -/
def ofBA (b : ByteArray) : List UInt8 := go b b.size []
where
  go (b : ByteArray) : Nat → List UInt8 → List UInt8
    | 0, acc => acc
    | i+1, acc => go b i (b[i]! :: acc)

def zeros (n : Nat) : ByteArray := ByteArray.mk (Array.replicate n 0)

def baEq (a b : ByteArray) : Bool := a.data == b.data

/-- xor of two byte arrays, length of the first; `b` is read as zero beyond its end. -/
def xorBA (a b : ByteArray) : ByteArray := Id.run do
  let mut out := ByteArray.emptyWithCapacity a.size
  for i in [0:a.size] do
    out := out.push (a[i]! ^^^ (if i < b.size then b[i]! else 0))
  return out

def mapBA (f : UInt8 → UInt8) (a : ByteArray) : ByteArray := Id.run do
  let mut out := ByteArray.emptyWithCapacity a.size
  for i in [0:a.size] do
    out := out.push (f a[i]!)
  return out

@[inline] def le32At (m : ByteArray) (i : Nat) : UInt32 :=
  m[i]!.toUInt32 ||| (m[i+1]!.toUInt32 <<< 8) ||| (m[i+2]!.toUInt32 <<< 16) ||| (m[i+3]!.toUInt32 <<< 24)

@[inline] def be32At (m : ByteArray) (i : Nat) : UInt32 :=
  (m[i]!.toUInt32 <<< 24) ||| (m[i+1]!.toUInt32 <<< 16) ||| (m[i+2]!.toUInt32 <<< 8) ||| m[i+3]!.toUInt32

@[inline] def be64At (m : ByteArray) (i : Nat) : UInt64 :=
  ((be32At m i).toUInt64 <<< 32) ||| (be32At m (i+4)).toUInt64

@[inline] def pushLe32 (out : ByteArray) (w : UInt32) : ByteArray :=
  (((out.push w.toUInt8).push (w >>> 8).toUInt8).push (w >>> 16).toUInt8).push (w >>> 24).toUInt8

@[inline] def pushBe32 (out : ByteArray) (w : UInt32) : ByteArray :=
  (((out.push (w >>> 24).toUInt8).push (w >>> 16).toUInt8).push (w >>> 8).toUInt8).push w.toUInt8

@[inline] def pushBe64 (out : ByteArray) (w : UInt64) : ByteArray :=
  pushBe32 (pushBe32 out (w >>> 32).toUInt32) w.toUInt32

@[inline] def pushLe64 (out : ByteArray) (w : UInt64) : ByteArray :=
  pushLe32 (pushLe32 out w.toUInt32) (w >>> 32).toUInt32

@[inline] def rotl32 (x : UInt32) (n : UInt32) : UInt32 := (x <<< n) ||| (x >>> (32 - n))
@[inline] def rotr32 (x : UInt32) (n : UInt32) : UInt32 := (x >>> n) ||| (x <<< (32 - n))
@[inline] def rotr64 (x : UInt64) (n : UInt64) : UInt64 := (x >>> n) ||| (x <<< (64 - n))

/-- Sixteen unboxed 32-bit words (ChaCha20 / Salsa20 state). -/
structure St16 where
  x0 : UInt32
  x1 : UInt32
  x2 : UInt32
  x3 : UInt32
  x4 : UInt32
  x5 : UInt32
  x6 : UInt32
  x7 : UInt32
  x8 : UInt32
  x9 : UInt32
  x10 : UInt32
  x11 : UInt32
  x12 : UInt32
  x13 : UInt32
  x14 : UInt32
  x15 : UInt32

@[inline] def St16.add (a b : St16) : St16 :=
  ⟨a.x0+b.x0, a.x1+b.x1, a.x2+b.x2, a.x3+b.x3, a.x4+b.x4, a.x5+b.x5, a.x6+b.x6, a.x7+b.x7,
   a.x8+b.x8, a.x9+b.x9, a.x10+b.x10, a.x11+b.x11, a.x12+b.x12, a.x13+b.x13, a.x14+b.x14, a.x15+b.x15⟩

/-- little-endian bytes → Nat -/
def leToNat (b : ByteArray) : Nat := Id.run do
  let mut n := 0
  for i in [0:b.size] do
    n := (n <<< 8) ||| b[b.size - 1 - i]!.toNat
  return n

/-- big-endian bytes → Nat -/
def beToNat (b : ByteArray) : Nat := Id.run do
  let mut n := 0
  for i in [0:b.size] do
    n := (n <<< 8) ||| b[i]!.toNat
  return n

/-- Nat → `len` little-endian bytes (truncating) -/
def natToLe (n : Nat) (len : Nat) : ByteArray := Id.run do
  let mut out := ByteArray.emptyWithCapacity len
  let mut n := n
  for _ in [0:len] do
    out := out.push n.toUInt8
    n := n >>> 8
  return out

/-- Nat → `len` big-endian bytes (truncating to the low `len` bytes) -/
def natToBe (n : Nat) (len : Nat) : ByteArray := Id.run do
  let le := natToLe n len
  let mut out := ByteArray.emptyWithCapacity len
  for i in [0:len] do
    out := out.push le[len - 1 - i]!
  return out

/-- number of bytes in the minimal big-endian representation (0 for 0) -/
def natByteLen (n : Nat) : Nat := if n == 0 then 0 else (n.log2 / 8) + 1

def powMod (b e m : Nat) : Nat := Id.run do
  if m == 1 then return 0
  let mut r := 1
  let mut b := b % m
  let mut e := e
  while e > 0 do
    if e % 2 == 1 then r := (r * b) % m
    b := (b * b) % m
    e := e / 2
  return r

end AgeModel.Crypto.Impl
