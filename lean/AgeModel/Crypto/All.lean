import AgeModel.Crypto.Util
import AgeModel.Crypto.Sha256
import AgeModel.Crypto.Sha512
import AgeModel.Crypto.Hmac
import AgeModel.Crypto.ChaChaPoly
import AgeModel.Crypto.Curve25519
import AgeModel.Crypto.Scrypt
import AgeModel.Crypto.Rsa
/-
  Public, list-based API of the execution-only crypto backend.

  Everything is total. Where Go would panic or return an error that the signature cannot
  express, the conventions are:
  * `aeadSeal` with a key that is not 32 bytes or a nonce that is not 12 bytes returns `[]`;
    `aeadOpen` returns `none` in that case.
  * `x25519Base` with a scalar that is not 32 bytes returns `[]`.
  * `scrypt` does not validate its parameters (Go rejects N ≤ 1, non-powers of two, and
    oversized r·p); it is only meaningful for `logN ≥ 1`, `r ≥ 1`, `p ≥ 1`.
  * `hkdfSha256` does not enforce the 255·32 output limit (the counter byte wraps).
  * `rsaOaepDecrypt` accepts ciphertexts shorter than k bytes exactly as Go does
    (see the note at the top of `Rsa.lean`).

  Differentially tested against Go by `/verif/harness/cmd/primtest` through `CryptoTest.lean`.
-/
namespace AgeModel.Crypto
open Impl

abbrev Bytes := List UInt8

def sha256 (m : Bytes) : Bytes := ofBA (sha256BA (toBA m))

def sha512 (m : Bytes) : Bytes := ofBA (sha512BA (toBA m))

def hmacSha256 (key msg : Bytes) : Bytes := ofBA (hmacSha256BA (toBA key) (toBA msg))

/-- RFC 5869 extract-then-expand; empty salt = 32 zero bytes. -/
def hkdfSha256 (ikm salt info : Bytes) (len : Nat) : Bytes :=
  ofBA (hkdfSha256BA (toBA ikm) (toBA salt) (toBA info) len)

/-- ChaCha20-Poly1305, empty AAD; result = ciphertext ++ 16-byte tag. -/
def aeadSeal (key nonce pt : Bytes) : Bytes :=
  let k := toBA key; let n := toBA nonce
  if k.size != 32 || n.size != 12 then [] else ofBA (aeadSealBA k n (toBA pt))

def aeadOpen (key nonce ct : Bytes) : Option Bytes :=
  let k := toBA key; let n := toBA nonce
  if k.size != 32 || n.size != 12 then none else (aeadOpenBA k n (toBA ct)).map ofBA

/-- RFC 7748 X25519; `none` exactly when Go's `curve25519.X25519` errors. -/
def x25519 (scalar point : Bytes) : Option Bytes :=
  (x25519BA (toBA scalar) (toBA point)).map ofBA

def x25519Base (scalar : Bytes) : Bytes :=
  match x25519BA (toBA scalar) basePoint with
  | some r => ofBA r
  | none => []

def pbkdf2Sha256 (password salt : Bytes) (iter dkLen : Nat) : Bytes :=
  ofBA (pbkdf2Sha256BA (toBA password) (toBA salt) iter dkLen)

/-- `scrypt.Key(password, salt, 1 <<< logN, r, p, dkLen)` -/
def scrypt (password salt : Bytes) (logN r p dkLen : Nat) : Bytes :=
  ofBA (scryptBA (toBA password) (toBA salt) logN r p dkLen)

def edPubToMontgomery (edpk : Bytes) : Option Bytes :=
  (edPubToMontgomeryBA (toBA edpk)).map ofBA

/-- first 32 bytes of SHA-512(seed), unclamped -/
def edSeedToCurveScalar (seed : Bytes) : Bytes :=
  ofBA ((sha512BA (toBA seed)).extract 0 32)

def be32 (n : Nat) : Bytes :=
  [(n >>> 24).toUInt8, (n >>> 16).toUInt8, (n >>> 8).toUInt8, n.toUInt8]

def sshString (b : Bytes) : Bytes := be32 b.length ++ b

/-- SSH `mpint` of a non-negative number: minimal big-endian, 0x00 prefixed when the top bit is set; 0 is the empty string. -/
def sshMpint (n : Nat) : Bytes :=
  let len := natByteLen n
  let raw := ofBA (natToBe n len)
  match raw with
  | [] => sshString []
  | b :: _ => if b >= 0x80 then sshString (0 :: raw) else sshString raw

def sshEd25519Wire (edpk : Bytes) : Bytes :=
  sshString "ssh-ed25519".toUTF8.toList ++ sshString edpk

def sshRsaWire (e n : Nat) : Bytes :=
  sshString "ssh-rsa".toUTF8.toList ++ sshMpint e ++ sshMpint n

def mgf1Sha256 (seed : Bytes) (len : Nat) : Bytes := ofBA (mgf1Sha256BA (toBA seed) len)

def rsaOaepEncrypt (n e : Nat) (seed msg label : Bytes) : Option Bytes :=
  (rsaOaepEncryptBA n e (toBA seed) (toBA msg) (toBA label)).map ofBA

def rsaOaepDecrypt (n d : Nat) (ct label : Bytes) : Option Bytes :=
  (rsaOaepDecryptBA n d (toBA ct) (toBA label)).map ofBA

def hexDigit (n : UInt8) : Char :=
  if n < 10 then Char.ofNat (48 + n.toNat) else Char.ofNat (87 + n.toNat)

/-- lowercase hex -/
def hex (b : Bytes) : String := Id.run do
  let mut s := ""
  for x in b do
    s := (s.push (hexDigit (x >>> 4))).push (hexDigit (x &&& 15))
  return s

def hexVal (c : UInt8) : Option UInt8 :=
  if 48 ≤ c && c ≤ 57 then some (c - 48)
  else if 97 ≤ c && c ≤ 102 then some (c - 87)
  else if 65 ≤ c && c ≤ 70 then some (c - 55)
  else none

/-- accepts upper and lower case; `none` on odd length or any non-hex character -/
def unhex (s : String) : Option Bytes := Id.run do
  let u := s.toUTF8
  if u.size % 2 != 0 then return none
  let mut out := ByteArray.emptyWithCapacity (u.size / 2)
  for i in [0:u.size / 2] do
    match hexVal u[2*i]!, hexVal u[2*i+1]! with
    | some h, some l => out := out.push ((h <<< 4) ||| l)
    | _, _ => return none
  return some (ofBA out)

/-- big-endian bytes ↔ Nat, exposed for callers that carry RSA numbers as byte strings -/
def natOfBe (b : Bytes) : Nat := beToNat (toBA b)
def natToBeMin (n : Nat) : Bytes := ofBA (natToBe n (natByteLen n))

end AgeModel.Crypto
