import AgeModel.Crypto.Hmac
/-
  scrypt (RFC 7914), matching golang.org/x/crypto/scrypt.Key. Execution only.
  Salsa20/8 on sixteen unboxed UInt32, block state as `Array UInt32`
  (UInt32 is an unboxed scalar inside arrays on 64-bit targets).
-/
namespace AgeModel.Crypto.Impl

@[inline] def load16 (b : Array UInt32) (o : Nat) : St16 :=
  ⟨b[o]!, b[o+1]!, b[o+2]!, b[o+3]!, b[o+4]!, b[o+5]!, b[o+6]!, b[o+7]!,
   b[o+8]!, b[o+9]!, b[o+10]!, b[o+11]!, b[o+12]!, b[o+13]!, b[o+14]!, b[o+15]!⟩

@[inline] def St16.xor (a b : St16) : St16 :=
  ⟨a.x0^^^b.x0, a.x1^^^b.x1, a.x2^^^b.x2, a.x3^^^b.x3, a.x4^^^b.x4, a.x5^^^b.x5, a.x6^^^b.x6, a.x7^^^b.x7,
   a.x8^^^b.x8, a.x9^^^b.x9, a.x10^^^b.x10, a.x11^^^b.x11, a.x12^^^b.x12, a.x13^^^b.x13, a.x14^^^b.x14, a.x15^^^b.x15⟩

def store16 (out : Array UInt32) (o : Nat) (s : St16) : Array UInt32 :=
  let out := out.set! o s.x0; let out := out.set! (o+1) s.x1
  let out := out.set! (o+2) s.x2; let out := out.set! (o+3) s.x3
  let out := out.set! (o+4) s.x4; let out := out.set! (o+5) s.x5
  let out := out.set! (o+6) s.x6; let out := out.set! (o+7) s.x7
  let out := out.set! (o+8) s.x8; let out := out.set! (o+9) s.x9
  let out := out.set! (o+10) s.x10; let out := out.set! (o+11) s.x11
  let out := out.set! (o+12) s.x12; let out := out.set! (o+13) s.x13
  let out := out.set! (o+14) s.x14; out.set! (o+15) s.x15

/-- One Salsa20 double round (column round then row round). -/
def salsaDouble (s : St16) : St16 :=
  let x0 := s.x0; let x1 := s.x1; let x2 := s.x2; let x3 := s.x3
  let x4 := s.x4; let x5 := s.x5; let x6 := s.x6; let x7 := s.x7
  let x8 := s.x8; let x9 := s.x9; let x10 := s.x10; let x11 := s.x11
  let x12 := s.x12; let x13 := s.x13; let x14 := s.x14; let x15 := s.x15
  let x4 := x4 ^^^ rotl32 (x0 + x12) 7
  let x8 := x8 ^^^ rotl32 (x4 + x0) 9
  let x12 := x12 ^^^ rotl32 (x8 + x4) 13
  let x0 := x0 ^^^ rotl32 (x12 + x8) 18
  let x9 := x9 ^^^ rotl32 (x5 + x1) 7
  let x13 := x13 ^^^ rotl32 (x9 + x5) 9
  let x1 := x1 ^^^ rotl32 (x13 + x9) 13
  let x5 := x5 ^^^ rotl32 (x1 + x13) 18
  let x14 := x14 ^^^ rotl32 (x10 + x6) 7
  let x2 := x2 ^^^ rotl32 (x14 + x10) 9
  let x6 := x6 ^^^ rotl32 (x2 + x14) 13
  let x10 := x10 ^^^ rotl32 (x6 + x2) 18
  let x3 := x3 ^^^ rotl32 (x15 + x11) 7
  let x7 := x7 ^^^ rotl32 (x3 + x15) 9
  let x11 := x11 ^^^ rotl32 (x7 + x3) 13
  let x15 := x15 ^^^ rotl32 (x11 + x7) 18
  let x1 := x1 ^^^ rotl32 (x0 + x3) 7
  let x2 := x2 ^^^ rotl32 (x1 + x0) 9
  let x3 := x3 ^^^ rotl32 (x2 + x1) 13
  let x0 := x0 ^^^ rotl32 (x3 + x2) 18
  let x6 := x6 ^^^ rotl32 (x5 + x4) 7
  let x7 := x7 ^^^ rotl32 (x6 + x5) 9
  let x4 := x4 ^^^ rotl32 (x7 + x6) 13
  let x5 := x5 ^^^ rotl32 (x4 + x7) 18
  let x11 := x11 ^^^ rotl32 (x10 + x9) 7
  let x8 := x8 ^^^ rotl32 (x11 + x10) 9
  let x9 := x9 ^^^ rotl32 (x8 + x11) 13
  let x10 := x10 ^^^ rotl32 (x9 + x8) 18
  let x12 := x12 ^^^ rotl32 (x15 + x14) 7
  let x13 := x13 ^^^ rotl32 (x12 + x15) 9
  let x14 := x14 ^^^ rotl32 (x13 + x12) 13
  let x15 := x15 ^^^ rotl32 (x14 + x13) 18
  ⟨x0, x1, x2, x3, x4, x5, x6, x7, x8, x9, x10, x11, x12, x13, x14, x15⟩

def salsa208 (s : St16) : St16 :=
  (salsaDouble (salsaDouble (salsaDouble (salsaDouble s)))).add s

/-- scryptBlockMix on `(b xor v[voff ..])`; `b` has 32*r words. Pass `useV = false` for plain BlockMix. -/
def blockMixXor (b : Array UInt32) (v : Array UInt32) (voff : Nat) (useV : Bool) (r : Nat) : Array UInt32 := Id.run do
  let n := 2 * r
  let inp (i : Nat) : St16 :=
    if useV then (load16 b (i * 16)).xor (load16 v (voff + i * 16)) else load16 b (i * 16)
  let mut out : Array UInt32 := Array.replicate (32 * r) 0
  let mut x := inp (n - 1)
  for i in [0:n] do
    x := salsa208 (x.xor (inp i))
    let dst := if i % 2 == 0 then (i / 2) * 16 else (r + i / 2) * 16
    out := store16 out dst x
  return out

def roMix (x0 : Array UInt32) (r N : Nat) : Array UInt32 := Id.run do
  let bw := 32 * r
  let mut v : Array UInt32 := Array.emptyWithCapacity (N * bw)
  let mut x := x0
  for _ in [0:N] do
    v := v ++ x
    x := blockMixXor x #[] 0 false r
  for _ in [0:N] do
    let lo := x[(2 * r - 1) * 16]!.toNat
    let hi := x[(2 * r - 1) * 16 + 1]!.toNat
    let j := (lo + (hi <<< 32)) % N
    x := blockMixXor x v (j * bw) true r
  return x

def wordsOfBytes (b : ByteArray) (off nwords : Nat) : Array UInt32 := Id.run do
  let mut out : Array UInt32 := Array.emptyWithCapacity nwords
  for i in [0:nwords] do
    out := out.push (le32At b (off + 4 * i))
  return out

def scryptBA (password salt : ByteArray) (logN r p dkLen : Nat) : ByteArray := Id.run do
  let N := 2 ^ logN
  let blk := 128 * r
  let b := pbkdf2Sha256BA password salt 1 (p * blk)
  let mut b' := ByteArray.emptyWithCapacity (p * blk)
  for i in [0:p] do
    let x := roMix (wordsOfBytes b (i * blk) (32 * r)) r N
    for w in x do
      b' := pushLe32 b' w
  return pbkdf2Sha256BA password b' 1 dkLen

end AgeModel.Crypto.Impl
