import AgeModel.Crypto.Util
/-
  X25519 (RFC 7748) and the Edwards→Montgomery public-key map, on `Nat` (GMP-backed
  in compiled code). Execution only.

  Behaviour mirrors Go:
  * `x25519BA` = golang.org/x/crypto/curve25519.X25519: error (here `none`) for wrong
    lengths and for an all-zero result (low-order input point). Bit 255 of the point is
    ignored and non-canonical u (p ≤ u < 2^255) is reduced mod p.
  * `edPubToMontgomeryBA` = filippo.io/edwards25519 `(*Point).SetBytes` followed by
    `BytesMontgomery`: length must be 32; bit 255 is the x sign and is otherwise ignored;
    y is reduced mod p (non-canonical encodings accepted); the point must satisfy the curve
    equation, i.e. (y²-1)/(dy²+1) must be a square (0 included; the "x = 0 with sign bit set"
    encoding is accepted as Go does); u = (1+y)/(1-y) with 1/0 := 0.
-/
namespace AgeModel.Crypto.Impl

def fieldP : Nat := 2^255 - 19

@[inline] def fadd (a b : Nat) : Nat := (a + b) % fieldP
@[inline] def fsub (a b : Nat) : Nat := (a + fieldP - b) % fieldP
@[inline] def fmul (a b : Nat) : Nat := (a * b) % fieldP
def finv (a : Nat) : Nat := powMod a (fieldP - 2) fieldP

/-- Montgomery ladder; `k` already clamped, `u` already reduced. -/
def ladder (k u : Nat) : Nat := Id.run do
  let x1 := u
  let mut x2 := 1
  let mut z2 := 0
  let mut x3 := u
  let mut z3 := 1
  let mut swap := false
  for i in [0:255] do
    let kt := k.testBit (254 - i)
    if swap != kt then
      (x2, x3) := (x3, x2)
      (z2, z3) := (z3, z2)
    swap := kt
    let a := fadd x2 z2
    let aa := fmul a a
    let b := fsub x2 z2
    let bb := fmul b b
    let e := fsub aa bb
    let c := fadd x3 z3
    let d := fsub x3 z3
    let da := fmul d a
    let cb := fmul c b
    let t0 := fadd da cb
    let t1 := fsub da cb
    x3 := fmul t0 t0
    z3 := fmul x1 (fmul t1 t1)
    x2 := fmul aa bb
    z2 := fmul e (fadd aa (fmul 121665 e))
  if swap then
    (x2, x3) := (x3, x2)
    (z2, z3) := (z3, z2)
  return fmul x2 (finv z2)

def clampScalar (s : ByteArray) : Nat :=
  let n := leToNat s
  -- clear bits 0,1,2 and 255; set bit 254
  ((n >>> 3) <<< 3) % 2^254 + 2^254

def x25519BA (scalar point : ByteArray) : Option ByteArray :=
  if scalar.size != 32 || point.size != 32 then none else
  let k := clampScalar scalar
  let u := (leToNat point % 2^255) % fieldP
  let r := ladder k u
  if r == 0 then none else some (natToLe r 32)

def basePoint : ByteArray := (ByteArray.empty.push 9) ++ zeros 31

/-- Edwards curve constant d = -121665/121666 -/
def edD : Nat := fmul (fieldP - 121665) (finv 121666)

def edPubToMontgomeryBA (pk : ByteArray) : Option ByteArray :=
  if pk.size != 32 then none else
  let y := (leToNat pk % 2^255) % fieldP
  let yy := fmul y y
  let u := fsub yy 1
  let v := fadd (fmul edD yy) 1
  -- u/v is a square iff u*v is (v ≠ 0 always, since -1/d is a non-residue)
  let uv := fmul u v
  let leg := powMod uv ((fieldP - 1) / 2) fieldP
  if leg != 0 && leg != 1 then none else
  let mont := fmul (fadd 1 y) (finv (fsub 1 y))
  some (natToLe mont 32)

end AgeModel.Crypto.Impl
