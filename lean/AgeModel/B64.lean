/-
  AgeModel.B64 — strict base64 as age uses it (encoding/base64 of the Go
  standard library: modelled, not verified; cross-checked by the correspondence).
  `Raw` = RawStdEncoding.Strict() (header), `Std` = StdEncoding.Strict() (armor).
  Go's decoder skips CR and LF; every age call site rejects strings containing
  CR or LF before decoding (format.DecodeString, armoredReader), so the decoders
  here are only ever applied to CR/LF-free input and treat CR/LF as invalid.
-/
import AgeModel.Basic
namespace AgeModel
namespace B64

/-- alphabet: value (0..63) to character code -/
def alphaN (n : Nat) : Nat :=
  if n < 26 then 65 + n else if n < 52 then 97 + (n - 26)
  else if n < 62 then 48 + (n - 52) else if n = 62 then 43 else 47

/-- character code to value -/
def unalphaN (c : Nat) : Option Nat :=
  if 65 ≤ c ∧ c ≤ 90 then some (c - 65) else if 97 ≤ c ∧ c ≤ 122 then some (c - 97 + 26)
  else if 48 ≤ c ∧ c ≤ 57 then some (c - 48 + 52) else if c = 43 then some 62
  else if c = 47 then some 63 else none

def alpha (n : Nat) : UInt8 := (alphaN n).toUInt8
def unalpha (c : UInt8) : Option Nat := unalphaN c.toNat

def pad : UInt8 := 61  -- '='

/-- unpadded encoding -/
def encRaw : Bytes → Bytes
  | a :: b :: c :: rest =>
    let n := a.toNat * 65536 + b.toNat * 256 + c.toNat
    alpha (n / 262144) :: alpha (n / 4096 % 64) :: alpha (n / 64 % 64) :: alpha (n % 64) :: encRaw rest
  | [a, b] =>
    let n := a.toNat * 1024 + b.toNat * 4
    [alpha (n / 4096), alpha (n / 64 % 64), alpha (n % 64)]
  | [a] =>
    let n := a.toNat * 16
    [alpha (n / 64), alpha (n % 64)]
  | [] => []

/-- strict unpadded decoding: rejects characters outside the alphabet (so also
    `=`, CR, LF), a dangling single character, and non-zero trailing bits -/
def decRaw : Bytes → Option Bytes
  | w :: x :: y :: z :: rest => do
    let w ← unalpha w; let x ← unalpha x; let y ← unalpha y; let z ← unalpha z
    let n := w * 262144 + x * 4096 + y * 64 + z
    let r ← decRaw rest
    pure ((n / 65536).toUInt8 :: (n / 256 % 256).toUInt8 :: (n % 256).toUInt8 :: r)
  | [w, x, y] => do
    let w ← unalpha w; let x ← unalpha x; let y ← unalpha y
    let n := w * 4096 + x * 64 + y
    if n % 4 ≠ 0 then none else pure [(n / 1024).toUInt8, (n / 4 % 256).toUInt8]
  | [w, x] => do
    let w ← unalpha w; let x ← unalpha x
    let n := w * 64 + x
    if n % 16 ≠ 0 then none else pure [(n / 16).toUInt8]
  | [_] => none
  | [] => some []

/-- padded encoding -/
def encStd : Bytes → Bytes
  | a :: b :: c :: rest =>
    let n := a.toNat * 65536 + b.toNat * 256 + c.toNat
    alpha (n / 262144) :: alpha (n / 4096 % 64) :: alpha (n / 64 % 64) :: alpha (n % 64) :: encStd rest
  | [a, b] =>
    let n := a.toNat * 1024 + b.toNat * 4
    [alpha (n / 4096), alpha (n / 64 % 64), alpha (n % 64), pad]
  | [a] =>
    let n := a.toNat * 16
    [alpha (n / 64), alpha (n % 64), pad, pad]
  | [] => []

/-- strict padded decoding: length a multiple of four, padding only in the last
    quantum, canonical (zero) trailing bits -/
def decStd : Bytes → Option Bytes
  | [w, x, y, z] =>
    if y = pad ∧ z = pad then do
      let w ← unalpha w; let x ← unalpha x
      let n := w * 64 + x
      if n % 16 ≠ 0 then none else pure [(n / 16).toUInt8]
    else if z = pad then do
      let w ← unalpha w; let x ← unalpha x; let y ← unalpha y
      let n := w * 4096 + x * 64 + y
      if n % 4 ≠ 0 then none else pure [(n / 1024).toUInt8, (n / 4 % 256).toUInt8]
    else do
      let w ← unalpha w; let x ← unalpha x; let y ← unalpha y; let z ← unalpha z
      let n := w * 262144 + x * 4096 + y * 64 + z
      pure [(n / 65536).toUInt8, (n / 256 % 256).toUInt8, (n % 256).toUInt8]
  | w :: x :: y :: z :: r :: rest => do
    let w ← unalpha w; let x ← unalpha x; let y ← unalpha y; let z ← unalpha z
    let n := w * 262144 + x * 4096 + y * 64 + z
    let r ← decStd (r :: rest)
    pure ((n / 65536).toUInt8 :: (n / 256 % 256).toUInt8 :: (n % 256).toUInt8 :: r)
  | [] => some []
  | _ => none

end B64
end AgeModel
