/-
  AgeModel.File — age.Encrypt / age.Decrypt (age.go, primitives.go).

  Spec layer : `specFile`, the byte string age v1 prescribes for given random
               values, stanzas and plaintext.
  Impl layer : `encryptInit` (order of random draws, wraps, label checks and
               writes to the destination), `decryptInit` (parse, identity loop,
               MAC gate, nonce), composed with the Stream machines.
  Randomness is an explicit tape; `crypto/rand.Read(n)` is `draw n`.
-/
import AgeModel.Recipients
namespace AgeModel
open Format Stream

/-- `"header"` -/
def headerInfo : Bytes := [104, 101, 97, 100, 101, 114]
/-- `"payload"` -/
def payloadInfo : Bytes := [112, 97, 121, 108, 111, 97, 100]
def streamNonceSize : Nat := 16

/-! ### Spec layer -/

def headerMAC (P : Prims) (fileKey : Bytes) (stanzas : List Stanza) : Bytes :=
  P.hmac (P.hkdf fileKey [] headerInfo 32) (marshalNoMAC { stanzas := stanzas, mac := [] })

def streamKey (P : Prims) (fileKey nonce : Bytes) : Bytes := P.hkdf fileKey nonce payloadInfo 32

/-- the age v1 file for a file key, stanzas, payload nonce and plaintext -/
def specFile (P : Prims) (C : Nat) (fileKey : Bytes) (stanzas : List Stanza) (nonce pt : Bytes) : Bytes :=
  marshal { stanzas := stanzas, mac := headerMAC P fileKey stanzas } ++ nonce ++
    Stream.encrypt P.aead C (streamKey P fileKey nonce) pt

/-! ### random tape -/

/-- `rand.Read` of `n` bytes: the next `n` bytes of the tape -/
def draw (n : Nat) (t : Bytes) : Option (Bytes × Bytes) :=
  if n ≤ t.length then some (t.take n, t.drop n) else none

/-! ### labels -/

/-- bytewise lexicographic order (Go string comparison) -/
def bytesLe : Bytes → Bytes → Bool
  | [], _ => true
  | _ :: _, [] => false
  | a :: as, b :: bs => if a < b then true else if b < a then false else bytesLe as bs

def insertLabel (x : Bytes) : List Bytes → List Bytes
  | [] => [x]
  | y :: ys => if bytesLe x y then x :: y :: ys else y :: insertLabel x ys

/-- `sort.Strings` -/
def sortLabels : List Bytes → List Bytes
  | [] => []
  | x :: xs => insertLabel x (sortLabels xs)

/-! ### Encrypt -/

inductive EncErr
  | noRecipients
  | rand                 -- the random source failed
  | wrap (i : Nat)       -- "failed to wrap key for recipient #i"
  | incompatible         -- "incompatible recipients"
  | dst                  -- a write to the destination failed
deriving DecidableEq, Repr

/-- `wrapWithLabels`: stanzas, labels and the remaining tape -/
def wrapOne (P : Prims) (r : Recipient) (fk tape : Bytes) : Except Unit (Option (List Stanza × List Bytes) × Bytes) :=
  match r with
  | .x25519 pub =>
    match draw 32 tape with
    | none => .error ()
    | some (eph, t) => .ok ((wrapX25519 P pub eph fk).map fun s => ([s], []), t)
  | .scrypt pw logN =>
    match draw scryptSaltSize tape with
    | none => .error ()
    | some (salt, t) =>
      match draw 16 t with
      | none => .error ()
      | some (lab, t') => .ok (some ([wrapScrypt P pw logN salt fk], [hexLower lab]), t')
  | .sshEd wire mont =>
    match draw 32 tape with
    | none => .error ()
    | some (eph, t) => .ok ((wrapSshEd P wire mont eph fk).map fun s => ([s], []), t)
  | .sshRsa wire pub =>
    match draw 32 tape with
    | none => .error ()
    | some (seed, t) => .ok ((wrapSshRsa P wire pub seed fk).map fun s => ([s], []), t)
  | .custom wrap labels => .ok ((wrap fk).map fun ss => (ss, labels.getD []), tape)

/-- the recipient loop of Encrypt: accumulated stanzas, the first recipient's sorted labels -/
def wrapAll (P : Prims) (fk : Bytes) : List Recipient → Nat → Bytes → List Stanza → Option (List Bytes) →
    Except EncErr (List Stanza × Bytes)
  | [], _, tape, acc, _ => .ok (acc, tape)
  | r :: rs, i, tape, acc, labels =>
    match wrapOne P r fk tape with
    | .error () => .error .rand
    | .ok (none, _) => .error (.wrap i)
    | .ok (some (ss, l), tape') =>
      let l' := sortLabels l
      match labels with
      | none => wrapAll P fk rs (i+1) tape' (acc ++ ss) (some l')
      | some l0 => if l0 = l' then wrapAll P fk rs (i+1) tape' (acc ++ ss) (some l0) else .error .incompatible

/-- everything Encrypt computes before it touches the destination -/
def encryptHeader (P : Prims) (tape : Bytes) (rs : List Recipient) : Except EncErr (Bytes × List Stanza × Bytes) :=
  if rs.isEmpty then .error .noRecipients
  else match draw fileKeySize tape with
    | none => .error .rand
    | some (fk, t) =>
      match wrapAll P fk rs 0 t [] none with
      | .error e => .error e
      | .ok (stanzas, t') => .ok (fk, stanzas, t')

/-- split `b` into writes of the given sizes (whatever remains goes in one last write) -/
def segmentBy : List Nat → Bytes → List Bytes
  | _, [] => []
  | [], b => [b]
  | n :: ns, b => if n = 0 then segmentBy ns b else b.take n :: segmentBy ns (b.drop n)

/-- write the pieces in order; stop at the first failing write -/
def writeAll {S : DstSpec} (d : Dst S) : List Bytes → Dst S × Bool
  | [] => (d, true)
  | p :: ps =>
    match d.write p with
    | (d', true) => writeAll d' ps
    | (d', false) => (d', false)

/-- `Encrypt(dst, recipients...)`: the returned writer (or error), and the destination.
    `hdrSegs` is how Header.Marshal happens to split its output into Write calls;
    theorems hold for every such split. -/
def encryptInit {S : DstSpec} (P : Prims) (tape : Bytes) (rs : List Recipient) (hdrSegs : List Nat) (d : Dst S) :
    Except EncErr (Stream.Writer S × Bytes × Bytes) × Dst S :=
  match encryptHeader P tape rs with
  | .error e => (.error e, d)
  | .ok (fk, stanzas, t) =>
    let hdr := marshal { stanzas := stanzas, mac := headerMAC P fk stanzas }
    match writeAll d (segmentBy hdrSegs hdr) with
    | (d1, false) => (.error .dst, d1)
    | (d1, true) =>
      match draw streamNonceSize t with
      | none => (.error .rand, d1)
      | some (nonce, t') =>
        match d1.write nonce with
        | (d2, false) => (.error .dst, d2)
        | (d2, true) => (.ok (Stream.Writer.new d2, streamKey P fk nonce, t'), d2)

/-! ### Decrypt -/

inductive DecErr
  | noIdentities
  | header               -- "failed to read header"
  | noMatch (n : Nat)    -- NoIdentityMatchError with n collected causes
  | fatal (idx : Nat)    -- identity #idx returned a non-ErrIncorrectIdentity error
  | badMAC
  | nonce                -- "failed to read nonce"
deriving DecidableEq, Repr

/-- the identity loop: result, number of "incorrect identity" causes collected,
    number of identities consulted -/
def identityLoop (P : Prims) (stanzas : List Stanza) : List Identity → Nat → Nat →
    (Except DecErr (Option Bytes)) × Nat
  | [], nInc, consulted => (.ok none, consulted)
  | id :: ids, nInc, consulted =>
    match id.unwrap P stanzas with
    | .incorrect => identityLoop P stanzas ids (nInc + 1) (consulted + 1)
    | .fatal => (.error (.fatal consulted), consulted + 1)
    | .key k => (.ok (some k), consulted + 1)

/-- how many causes NoIdentityMatchError carries -/
def countIncorrect (P : Prims) (stanzas : List Stanza) : List Identity → Nat
  | [] => 0
  | id :: ids =>
    match id.unwrap P stanzas with
    | .incorrect => 1 + countIncorrect P stanzas ids
    | _ => 0

/-- whether the identity that ended the loop hands back an EMPTY file key as an empty but NON-nil slice
    (ssh-rsa: what `rsa.DecryptOAEP` returns for an empty message) rather than as nil (ssh-ed25519: what the AEAD's
    `Open` returns for an empty plaintext; the native types never return an empty key). `Decrypt` tells the two apart
    with `fileKey == nil`: a nil key is "no identity matched", an empty one goes on to the MAC check. -/
def endsNonNil (P : Prims) (stanzas : List Stanza) : List Identity → Bool
  | [] => false
  | id :: ids =>
    match id.unwrap P stanzas with
    | .incorrect => endsNonNil P stanzas ids
    | .fatal => false
    | .key _ => id.emptyNonNil

/-- `Decrypt(src, identities...)` up to the point where the payload reader is
    created: the stream key and the payload bytes, plus how many identities were consulted -/
def decryptInit (P : Prims) (ids : List Identity) (file : Bytes) : Except DecErr (Bytes × Bytes) × Nat :=
  if ids.isEmpty then (.error .noIdentities, 0)
  else match parse file with
    | .error _ => (.error .header, 0)
    | .ok (hdr, payload) =>
      match identityLoop P hdr.stanzas ids 0 0 with
      | (.error e, c) => (.error e, c)
      | (.ok none, c) => (.error (.noMatch (countIncorrect P hdr.stanzas ids)), c)
      | (.ok (some fk), c) =>
        if fk.isEmpty && !endsNonNil P hdr.stanzas ids then (.error (.noMatch (countIncorrect P hdr.stanzas ids)), c)   -- a nil file key
        else if headerMAC P fk hdr.stanzas ≠ hdr.mac then (.error .badMAC, c)
        else if payload.length < streamNonceSize then (.error .nonce, c)
        else (.ok (streamKey P fk (payload.take streamNonceSize), payload.drop streamNonceSize), c)

/-- whole-file decryption read to the end: plaintext released and terminal condition -/
def decryptFile (P : Prims) (C : Nat) (ids : List Identity) (file : Bytes) : Except DecErr (Bytes × Outcome) :=
  match (decryptInit P ids file).1 with
  | .error e => .error e
  | .ok (k, payload) => .ok (Stream.decrypt P.aead C k payload)

/-- whole-file encryption with a destination that never fails: the file bytes -/
def encryptFile (P : Prims) (C : Nat) (tape : Bytes) (rs : List Recipient) (pt : Bytes) : Except EncErr Bytes :=
  match encryptHeader P tape rs with
  | .error e => .error e
  | .ok (fk, stanzas, t) =>
    match draw streamNonceSize t with
    | none => .error .rand
    | some (nonce, _) => .ok (specFile P C fk stanzas nonce pt)

end AgeModel
