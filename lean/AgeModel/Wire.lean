/-
  AgeModel.Wire — text encoding used on the driver's line protocol.
-/
import AgeModel.Concrete
namespace AgeModel
namespace Wire
open Stream

/-- long byte strings are summarised as `#len:sha256` on both sides -/
def sum (b : Bytes) : String :=
  if b.length ≤ 48 then hexOrDash b else s!"#{b.length}:{hex (Crypto.sha256 b)}"

def outcome : Outcome → String
  | .eof => "eof" | .truncated => "truncated" | .emptyLast => "emptylast" | .authFail => "authfail"
  | .trailing => "trailing" | .srcErr => "srcerr" | .closed => "closed" | .dstErr => "dsterr"
  | .panic n => s!"panic{n}" | .fuel => "fuel"

def optOutcome : Option Outcome → String
  | none => "ok"
  | some o => outcome o

def splitOn (s : String) (c : Char) : List String := s.split (· == c) |>.map (·.toString) |>.toList

def nat? (s : String) : Option Nat := s.toNat?

def bool? (s : String) : Option Bool := if s = "1" then some true else if s = "0" then some false else none

end Wire
end AgeModel
