/-
  AgeModel.SpecConsts — the constants of the age v1 format, written by hand from
  the specification (https://age-encryption.org/v1, C2SP age.md; Bech32: BIP 173;
  armor: RFC 7468 strict PEM with the label "AGE ENCRYPTED FILE").

  Core Lean only. Every textual constant is given twice: as a `String` (for
  reading) and as the list of its bytes, `…Bytes : List Nat` (for proving: kernel
  reduction cannot unfold `String.toUTF8` in Lean 4.33). `Tie/C05.lean` proves the
  two forms agree, and that the constants regenerated from the Go sources
  (`AgeModel/Extracted/Consts.lean`) equal these.

  The model files take their constants from here.
-/
namespace AgeModel.SpecConsts

/-! ## Header (age.md, "Header") -/

/-- the version line, including its LF -/
def intro : String := "age-encryption.org/v1\n"
def introBytes : List Nat :=
  [97, 103, 101, 45, 101, 110, 99, 114, 121, 112, 116, 105, 111, 110, 46, 111, 114, 103, 47, 118, 49, 10]

/-- a recipient stanza begins with `->` -/
def stanzaPrefix : String := "->"
def stanzaPrefixBytes : List Nat := [45, 62]

/-- the header ends with a line beginning `---` followed by the MAC -/
def footerPrefix : String := "---"
def footerPrefixBytes : List Nat := [45, 45, 45]

/-- stanza bodies are unpadded base64 wrapped at 64 columns, i.e. 48 bytes per line -/
def columnsPerLine : Nat := 64
def bytesPerLine : Nat := 48

/-- the header MAC is HMAC-SHA-256: 32 bytes -/
def macSize : Nat := 32

/-! ## Keys and payload (age.md, "Payload", "File key") -/

/-- the file key is 16 bytes of CSPRNG output -/
def fileKeySize : Nat := 16
/-- the payload begins with a 16-byte nonce -/
def streamNonceSize : Nat := 16
/-- payload chunks are 64 KiB of plaintext -/
def chunkSize : Nat := 65536
/-- ChaCha20-Poly1305: 16-byte tag, 12-byte nonce -/
def tagSize : Nat := 16
def nonceSize : Nat := 12
/-- an encrypted full chunk -/
def encChunkSize : Nat := chunkSize + tagSize
/-- the last byte of the chunk nonce is 0x01 for the final chunk, 0x00 otherwise -/
def lastChunkFlag : Nat := 1
/-- the chunk counter is the first 11 bytes of the nonce, big endian -/
def counterBytes : Nat := 11
def ctrLimit : Nat := 2 ^ 88

/-- HKDF-SHA-256 info strings: header MAC key and payload key -/
def hkdfInfoHeader : String := "header"
def hkdfInfoHeaderBytes : List Nat := [104, 101, 97, 100, 101, 114]
def hkdfInfoPayload : String := "payload"
def hkdfInfoPayloadBytes : List Nat := [112, 97, 121, 108, 111, 97, 100]
/-- both derive 32 bytes -/
def derivedKeySize : Nat := 32

/-! ## Recipient types (age.md, "The X25519 recipient type", "The scrypt recipient type";
    the ssh-rsa / ssh-ed25519 types as implemented by age and rage) -/

def stanzaTypeX25519 : String := "X25519"
def stanzaTypeX25519Bytes : List Nat := [88, 50, 53, 53, 49, 57]
def stanzaTypeScrypt : String := "scrypt"
def stanzaTypeScryptBytes : List Nat := [115, 99, 114, 121, 112, 116]
def stanzaTypeSshRsa : String := "ssh-rsa"
def stanzaTypeSshRsaBytes : List Nat := [115, 115, 104, 45, 114, 115, 97]
def stanzaTypeSshEd25519 : String := "ssh-ed25519"
def stanzaTypeSshEd25519Bytes : List Nat := [115, 115, 104, 45, 101, 100, 50, 53, 53, 49, 57]

/-- X25519: wrap key = HKDF-SHA-256(ikm = shared secret, salt = ephemeral share ‖ recipient, info = this) -/
def x25519Label : String := "age-encryption.org/v1/X25519"
def x25519LabelBytes : List Nat :=
  [97, 103, 101, 45, 101, 110, 99, 114, 121, 112, 116, 105, 111, 110, 46, 111, 114, 103, 47, 118, 49, 47,
   88, 50, 53, 53, 49, 57]

/-- scrypt: salt = this ‖ 16-byte stanza salt -/
def scryptLabel : String := "age-encryption.org/v1/scrypt"
def scryptLabelBytes : List Nat :=
  [97, 103, 101, 45, 101, 110, 99, 114, 121, 112, 116, 105, 111, 110, 46, 111, 114, 103, 47, 118, 49, 47,
   115, 99, 114, 121, 112, 116]
def scryptSaltSize : Nat := 16
/-- scrypt parameters: N = 2^(work factor), r = 8, p = 1, 32-byte output -/
def scryptR : Nat := 8
def scryptP : Nat := 1
def scryptKeyLen : Nat := 32

/-- ssh-rsa: RSAES-OAEP with SHA-256 and this label -/
def sshRsaLabel : String := "age-encryption.org/v1/ssh-rsa"
def sshRsaLabelBytes : List Nat :=
  [97, 103, 101, 45, 101, 110, 99, 114, 121, 112, 116, 105, 111, 110, 46, 111, 114, 103, 47, 118, 49, 47,
   115, 115, 104, 45, 114, 115, 97]

/-- ssh-ed25519: info of the tweak HKDF and of the wrap-key HKDF -/
def sshEd25519Label : String := "age-encryption.org/v1/ssh-ed25519"
def sshEd25519LabelBytes : List Nat :=
  [97, 103, 101, 45, 101, 110, 99, 114, 121, 112, 116, 105, 111, 110, 46, 111, 114, 103, 47, 118, 49, 47,
   115, 115, 104, 45, 101, 100, 50, 53, 53, 49, 57]

/-- the four labels, in the order X25519, scrypt, ssh-rsa, ssh-ed25519 -/
def labels : List String := [x25519Label, scryptLabel, sshRsaLabel, sshEd25519Label]
def stanzaTypes : List String := [stanzaTypeX25519, stanzaTypeScrypt, stanzaTypeSshRsa, stanzaTypeSshEd25519]

/-- a scrypt work factor is written in decimal without sign or leading zero -/
def workFactorSyntax : String := "^[1-9][0-9]*$"
def workFactorSyntaxBytes : List Nat := [94, 91, 49, 45, 57, 93, 91, 48, 45, 57, 93, 42, 36]

/-! ## ASCII armor (age.md, "ASCII armor") -/

def armorHeader : String := "-----BEGIN AGE ENCRYPTED FILE-----"
def armorHeaderBytes : List Nat :=
  [45, 45, 45, 45, 45, 66, 69, 71, 73, 78, 32, 65, 71, 69, 32, 69, 78, 67, 82, 89, 80, 84, 69, 68, 32,
   70, 73, 76, 69, 45, 45, 45, 45, 45]
def armorFooter : String := "-----END AGE ENCRYPTED FILE-----"
def armorFooterBytes : List Nat :=
  [45, 45, 45, 45, 45, 69, 78, 68, 32, 65, 71, 69, 32, 69, 78, 67, 82, 89, 80, 84, 69, 68, 32, 70, 73,
   76, 69, 45, 45, 45, 45, 45]

/-! ## Bech32 (BIP 173) -/

def bech32Charset : String := "qpzry9x8gf2tvdw0s3jn54khce6mua7l"
def bech32CharsetBytes : List Nat :=
  [113, 112, 122, 114, 121, 57, 120, 56, 103, 102, 50, 116, 118, 100, 119, 48, 115, 51, 106, 110, 53, 52,
   107, 104, 99, 101, 54, 109, 117, 97, 55, 108]
def bech32Generator : List Nat := [0x3b6a57b2, 0x26508e6d, 0x1ea119fa, 0x3d4233dd, 0x2a1462b3]

/-! ## Plugin names (C2SP age-plugin.md: the name part of a plugin recipient / identity) -/

/-- characters allowed in a plugin name; in particular no path separator -/
def pluginNameAllowed : String := "abcdefghijklmnopqrstuvwxyzABCDEFGHIJKLMNOPQRSTUVWXYZ0123456789+-._"
def pluginNameAllowedBytes : List Nat :=
  [97, 98, 99, 100, 101, 102, 103, 104, 105, 106, 107, 108, 109, 110, 111, 112, 113, 114, 115, 116, 117,
   118, 119, 120, 121, 122,
   65, 66, 67, 68, 69, 70, 71, 72, 73, 74, 75, 76, 77, 78, 79, 80, 81, 82, 83, 84, 85, 86, 87, 88, 89, 90,
   48, 49, 50, 51, 52, 53, 54, 55, 56, 57,
   43, 45, 46, 95]
def pluginBinaryPrefix : String := "age-plugin-"

/-- all characters of an ASCII string as numbers (decidable by kernel reduction, unlike `toUTF8`) -/
def codes (s : String) : List Nat := s.toList.map Char.toNat

end AgeModel.SpecConsts
