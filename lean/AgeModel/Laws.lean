/-
  AgeModel.Laws — hypothesis structures about the AEAD parameter.
  These are `Prop`s taken as explicit hypotheses by theorems, never axioms.
  `Correct` is true of ChaCha20-Poly1305 exactly; `NonceSep` fails only on a
  Poly1305 tag collision (see DESIGN.md §4). Each is shown inhabited by `AEAD.toy`.
-/
import AgeModel.Stream
namespace AgeModel

structure AEAD.Correct (A : AEAD) : Prop where
  T_pos : 0 < A.T
  seal_len : ∀ k n p, (A.sealF k n p).length = p.length + A.T
  open_seal : ∀ k n p, A.openF k n (A.sealF k n p) = some p
  /-- ciphertext uniqueness: body and tag are functions of key, nonce, plaintext -/
  open_unique : ∀ k n c p, A.openF k n c = some p → c = A.sealF k n p

/-- an honest ciphertext does not open under another (12-byte) nonce -/
def AEAD.NonceSep (A : AEAD) : Prop :=
  ∀ k n n' p, n.length = 12 → n'.length = 12 → n ≠ n' → A.openF k n' (A.sealF k n p) = none

/-- a toy AEAD (no secrecy at all) that satisfies `Correct` and `NonceSep`:
    the tag is the first 12 bytes of the nonce, zero padded -/
def toyTag (n : Bytes) : Bytes := (n ++ List.replicate 12 0).take 12

def AEAD.toy : AEAD where
  T := 12
  sealF := fun _ n p => p ++ toyTag n
  openF := fun _ n c =>
    if 12 ≤ c.length ∧ c.drop (c.length - 12) = toyTag n then some (c.take (c.length - 12)) else none

end AgeModel
