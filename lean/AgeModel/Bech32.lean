/-
  AgeModel.Bech32 — internal/bech32/bech32.go, statement by statement.

  Representation.  A Go `string` is a `List UInt8` (its bytes).  That is exact
  here for the following reason.  `Decode` begins with

      for p, c := range s { if c < 33 || c > 126 { return error } }

  which iterates over *runes*.  A byte < 0x80 is its own rune.  Every byte
  ≥ 0x80 is either part of a valid multi-byte sequence (whose rune is ≥ 0x80,
  hence > 126) or is invalid UTF-8 (then `range` yields U+FFFD = 65533 > 126).
  So the loop returns the error **iff some byte of `s` is outside 33..126**,
  which is what `hasBadByte` says.  After that check every later statement of
  `Decode` only ever sees ASCII, where `strings.ToLower` / `strings.ToUpper`
  are the byte-wise ASCII case maps, `strings.LastIndex(s, "1")` is the last
  index of byte 0x31 and `strings.IndexRune(charset, c)` is the index of a
  byte.  `Encode` performs the same rune test on the HRP before any case
  mapping (and the data part it produces is drawn from `charset`).

  The 30-bit checksum state is a `Nat`.  In Go it is a `uint32`, but
  `(chk & 0x1ffffff) << 5` has at most 30 bits, `uint32(v)` at most 8 and every
  generator constant at most 30, so no operation ever wraps: the `Nat`
  operations are exact (`polymod_lt` in Proofs/Bech32Poly.lean).

  `convertBits` keeps Go's `uint32` accumulator with its wrap-around (`% 2^32`).
  `frombits`/`tobits`/`bits` are Go `byte`s; the model uses `Nat` and is
  faithful for `frombits, tobits ≤ 8` (the only call sites are (8,5,true) and
  (5,8,false)), where `bits < tobits + frombits ≤ 16` never wraps.
-/
import AgeModel.Basic
namespace AgeModel
namespace Bech32

inductive Err
  | badChar            -- "invalid character": a rune outside 33..126 anywhere in the string
  | mixedCase          -- "mixed case" (Decode) / "mixed case HRP" (Encode)
  | badSeparator       -- "separator '1' at invalid position"
  | badHrpChar         -- "invalid character human-readable part" / Encode: "invalid HRP character"
  | badDataChar        -- "invalid character data part"
  | badChecksum        -- "invalid checksum"
  | badRange           -- convertBits: "invalid data range"
  | badPaddingIllegal  -- convertBits: "illegal zero padding"
  | badPaddingNonZero  -- convertBits: "non-zero padding"
  | badHrpEmpty        -- Encode: "invalid HRP" (len(hrp) < 1)
  | indexPanic         -- `charset[p]` with p ≥ 32 would panic (proved unreachable: `encode_no_panic`)
deriving DecidableEq, Repr, Inhabited

/-! ## ASCII helpers (package strings restricted to ASCII) -/

def lowerByte (c : UInt8) : UInt8 := if 65 ≤ c ∧ c ≤ 90 then c + 32 else c
def upperByte (c : UInt8) : UInt8 := if 97 ≤ c ∧ c ≤ 122 then c - 32 else c

/-- `strings.ToLower` on an ASCII string -/
def toLower (s : Bytes) : Bytes := s.map lowerByte
/-- `strings.ToUpper` on an ASCII string -/
def toUpper (s : Bytes) : Bytes := s.map upperByte

/-- the test `c < 33 || c > 126` of the rune loops, on a byte -/
def badByte (c : UInt8) : Bool := c < 33 || c > 126

/-- `for _, c := range s { if c < 33 || c > 126 {…} }` finds an offending rune
    (see the header comment for why bytes suffice) -/
def hasBadByte (s : Bytes) : Bool := s.any badByte

/-- `strings.LastIndex(s, string(c))`, `none` for -1 -/
def lastIndex (c : UInt8) : Bytes → Option Nat
  | [] => none
  | x :: xs =>
    match lastIndex c xs with
    | some i => some (i + 1)
    | none => if x = c then some 0 else none

/-- a loop that maps every element and returns early (`none`) on the first
    element that has no image: `for … { d := f(c); if d == -1 { return err }; out = append(out, d) }` -/
def mapOpt {α β : Type} (f : α → Option β) : List α → Option (List β)
  | [] => some []
  | a :: as =>
    match f a with
    | none => none
    | some b =>
      match mapOpt f as with
      | none => none
      | some bs => some (b :: bs)

/-! ## charset -/

/-- "qpzry9x8gf2tvdw0s3jn54khce6mua7l" -/
def charset : Bytes :=
  [0x71, 0x70, 0x7a, 0x72, 0x79, 0x39, 0x78, 0x38, 0x67, 0x66, 0x32, 0x74, 0x76, 0x64, 0x77, 0x30,
   0x73, 0x33, 0x6a, 0x6e, 0x35, 0x34, 0x6b, 0x68, 0x63, 0x65, 0x36, 0x6d, 0x75, 0x61, 0x37, 0x6c]

/-- `charset[p]`; `none` where Go would panic with an index out of range -/
def charsetAt (p : UInt8) : Option UInt8 := charset[p.toNat]?

/-- `strings.IndexRune(charset, c)`; `none` for -1 -/
def charsetIdx (c : UInt8) : Option UInt8 :=
  match charset.findIdx? (· == c) with
  | some i => some i.toUInt8
  | none => none

/-! ## polymod -/

/-- one iteration of `for i := 0; i < 5; i++ { bit := top >> i & 1; if bit == 1 { chk ^= generator[i] } }` -/
def feed (top i g chk : Nat) : Nat := if (top >>> i) &&& 1 = 1 then chk ^^^ g else chk

/-- the body of `for _, v := range values` (inner loop unrolled, generator
    constants inlined in index order 0..4) -/
def polymodStep (chk : Nat) (v : UInt8) : Nat :=
  let top := chk >>> 25
  let chk := (chk &&& 0x1ffffff) <<< 5
  let chk := chk ^^^ v.toNat
  let chk := feed top 0 0x3b6a57b2 chk
  let chk := feed top 1 0x26508e6d chk
  let chk := feed top 2 0x1ea119fa chk
  let chk := feed top 3 0x3d4233dd chk
  let chk := feed top 4 0x2a1462b3 chk
  chk

def polymod (values : Bytes) : Nat := values.foldl polymodStep 1

def hrpExpand (hrp : Bytes) : Bytes :=
  let h := toLower hrp
  h.map (fun (c : UInt8) => c >>> 5) ++ [0] ++ h.map (fun (c : UInt8) => c &&& 31)

def verifyChecksum (hrp data : Bytes) : Bool :=
  polymod (hrpExpand hrp ++ data) == 1

def createChecksum (hrp data : Bytes) : Bytes :=
  let values := hrpExpand hrp ++ data ++ [0, 0, 0, 0, 0, 0]
  let mod := polymod values ^^^ 1
  -- for p := range ret { shift := 5 * (5 - p); ret[p] = byte(mod>>shift) & 31 }
  [0, 1, 2, 3, 4, 5].map fun p => ((mod >>> (5 * (5 - p))) % 256 &&& 31).toUInt8

/-! ## convertBits -/

/-- `for bits >= tobits { bits -= tobits; ret = append(ret, byte(acc>>bits)&maxv) }`
    with fuel (`drain_fuel_enough`: `fuel = bits` suffices when `tobits ≥ 1`) -/
def drain (acc tobits maxv : Nat) : Nat → Nat → Bytes → Nat × Bytes
  | 0, bits, ret => (bits, ret)
  | fuel + 1, bits, ret =>
    if bits ≥ tobits then
      drain acc tobits maxv fuel (bits - tobits)
        (ret ++ [((acc >>> (bits - tobits)) % 256 &&& maxv).toUInt8])
    else (bits, ret)

/-- the `for idx, value := range data` loop; state (acc, bits, ret) -/
def cbLoop (frombits tobits maxv : Nat) : Bytes → Nat → Nat → Bytes → Except Err (Nat × Nat × Bytes)
  | [], acc, bits, ret => .ok (acc, bits, ret)
  | value :: rest, acc, bits, ret =>
    if value.toNat >>> frombits ≠ 0 then .error .badRange
    else
      let acc := (acc <<< frombits ||| value.toNat) % 2 ^ 32
      let bits := bits + frombits
      let r := drain acc tobits maxv bits bits ret
      cbLoop frombits tobits maxv rest acc r.1 r.2

def convertBits (data : Bytes) (frombits tobits : Nat) (pad : Bool) : Except Err Bytes :=
  let maxv := (1 <<< tobits - 1) % 256
  match cbLoop frombits tobits maxv data 0 0 [] with
  | .error e => .error e
  | .ok (acc, bits, ret) =>
    if pad then
      if bits > 0 then .ok (ret ++ [((acc <<< (tobits - bits)) % 2 ^ 32 % 256 &&& maxv).toUInt8])
      else .ok ret
    else if bits ≥ frombits then .error .badPaddingIllegal
    else if (acc <<< (tobits - bits)) % 2 ^ 32 % 256 &&& maxv ≠ 0 then .error .badPaddingNonZero
    else .ok ret

/-! ## Encode / Decode -/

def encode (hrp data : Bytes) : Except Err Bytes :=
  match convertBits data 8 5 true with
  | .error e => .error e
  | .ok values =>
    if hrp.length < 1 then .error .badHrpEmpty
    else if hasBadByte hrp then .error .badHrpChar
    else if toUpper hrp ≠ hrp ∧ toLower hrp ≠ hrp then .error .mixedCase
    else
      let lower := toLower hrp == hrp
      let hrp := toLower hrp
      match mapOpt charsetAt (values ++ createChecksum hrp values) with
      | none => .error .indexPanic
      | some cs =>
        let ret := hrp ++ [0x31] ++ cs
        if lower then .ok ret else .ok (toUpper ret)

/-- returns (hrp, data); the HRP is returned in the case it had in `s` -/
def decode (s : Bytes) : Except Err (Bytes × Bytes) :=
  if hasBadByte s then .error .badChar
  else if toLower s ≠ s ∧ toUpper s ≠ s then .error .mixedCase
  else
    match lastIndex 0x31 s with
    | none => .error .badSeparator                       -- pos = -1 < 1
    | some pos =>
      if pos < 1 ∨ pos + 7 > s.length then .error .badSeparator
      else
        let hrp := s.take pos
        if hasBadByte hrp then .error .badHrpChar         -- unreachable after the first loop
        else
          let s' := toLower s
          match mapOpt charsetIdx (s'.drop (pos + 1)) with
          | none => .error .badDataChar
          | some data =>
            if !verifyChecksum hrp data then .error .badChecksum
            else
              -- data[:len(data)-6]; len(data) = len(s)-pos-1 ≥ 6 by the separator test
              match convertBits (data.take (data.length - 6)) 5 8 false with
              | .error e => .error e
              | .ok bytes => .ok (hrp, bytes)

end Bech32
end AgeModel
