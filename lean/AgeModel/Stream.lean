/-
  AgeModel.Stream — the STREAM payload encryption of age (internal/stream/stream.go).

  Spec layer : `encrypt` / `decrypt` over whole byte strings.
  Impl layer : `Writer` and `Reader` state machines that mirror the Go code
               call by call (buffer, counter, sticky error, destination faults,
               source faults, the EOF probe after the final chunk).
  The AEAD is a parameter; the chunk size `C` and the counter limit `L` are
  parameters instantiated at 65536 and 2^88 (tied to the source in Tie/).
-/
import AgeModel.Basic
namespace AgeModel

structure AEAD where
  T : Nat
  sealF : Bytes → Bytes → Bytes → Bytes          -- key nonce plaintext
  openF : Bytes → Bytes → Bytes → Option Bytes   -- key nonce ciphertext

namespace Stream

/-- 11-byte big-endian chunk counter followed by the last-chunk flag byte -/
def nonce (i : Nat) (last : Bool) : Bytes := be 11 i ++ [if last then 1 else 0]

/-! ## Spec layer -/

def encFrom (A : AEAD) (C : Nat) (k : Bytes) (i : Nat) (p : Bytes) (fuel : Nat) : Bytes :=
  match fuel with
  | 0 => []
  | fuel+1 =>
    if p.length ≤ C then A.sealF k (nonce i true) p
    else A.sealF k (nonce i false) (p.take C) ++ encFrom A C k (i+1) (p.drop C) fuel

/-- the payload age prescribes for plaintext `p` under stream key `k` -/
def encrypt (A : AEAD) (C : Nat) (k p : Bytes) : Bytes := encFrom A C k 0 p (p.length + 1)

inductive Outcome
  | eof                 -- clean end of stream
  | truncated           -- io.ErrUnexpectedEOF: no final chunk
  | emptyLast           -- "last chunk is empty"
  | authFail            -- "failed to decrypt and authenticate payload chunk"
  | trailing            -- "trailing data after end of encrypted file"
  | srcErr              -- the source returned a non-EOF error
  | closed              -- writer: already closed
  | dstErr              -- writer: destination failed
  | panic (site : Nat)  -- an explicit panic() in the Go code
  | fuel                -- model ran out of fuel (proved unreachable)
deriving DecidableEq, Repr, Inhabited

/-- `srcFail = true`: after the given bytes the source reports a non-EOF error
    instead of EOF.  `decrypt` proper is the `false` instance. -/
def decFrom (A : AEAD) (C : Nat) (k : Bytes) (srcFail : Bool) (i : Nat) (c : Bytes) (fuel : Nat) :
    Bytes × Outcome :=
  match fuel with
  | 0 => ([], .fuel)
  | fuel+1 =>
    let E := C + A.T
    if c.length < E then
      if srcFail then ([], .srcErr)
      else if c.length = 0 then ([], .truncated)
      else if i ≠ 0 ∧ c.length = A.T then ([], .emptyLast)
      else match A.openF k (nonce i true) c with
        | some p => (p, .eof)
        | none => ([], .authFail)
    else
      match A.openF k (nonce i false) (c.take E) with
      | some p =>
        let r := decFrom A C k srcFail (i+1) (c.drop E) fuel
        (p ++ r.1, r.2)
      | none =>
        match A.openF k (nonce i true) (c.take E) with
        | some p =>
          if (c.drop E).length = 0 then (p, if srcFail then .srcErr else .eof) else (p, .trailing)
        | none => ([], .authFail)

/-- plaintext released and terminal condition when `c` is read to the end -/
def decrypt (A : AEAD) (C : Nat) (k c : Bytes) : Bytes × Outcome :=
  decFrom A C k false 0 c (c.length + 1)

/-! ## Destinations and sources (io.Writer / io.Reader as the code uses them) -/

/-- behaviour of a destination: arbitrary state, arbitrary (deterministic)
    decision per `Write` call given the number of bytes accepted so far and the
    bytes of the call: `none` = success, `some n` = failure after accepting `n`
    bytes. (The bytes are visible to the destination so that another writer —
    the armor writer — can itself be a destination.) -/
structure DstSpec where
  σ : Type
  step : σ → Nat → Bytes → σ × Option Nat

structure Dst (S : DstSpec) where
  acc : Bytes
  st : S.σ

def Dst.write {S : DstSpec} (d : Dst S) (b : Bytes) : Dst S × Bool :=
  match S.step d.st d.acc.length b with
  | (s', none) => ({ acc := d.acc ++ b, st := s' }, true)
  | (s', some n) => ({ acc := d.acc ++ b.take n, st := s' }, false)

/-- a destination that never fails -/
def DstSpec.perfect : DstSpec := { σ := Unit, step := fun _ _ _ => ((), none) }

/-- fail the first (`once`) or every write that would cross byte offset `off`,
    accepting the part before `off` (`partialOk`) or nothing. State: already fired. -/
def DstSpec.atOffset (off : Nat) (partialOk once : Bool) : DstSpec :=
  { σ := Bool
    step := fun fired accLen b =>
      if (once && fired) then (fired, none)
      else if accLen + b.length > off then (true, some (if partialOk then off - accLen else 0))
      else (fired, none) }

/-- fail write call number `idx` (0-based), once, accepting `n` bytes. State: call counter. -/
def DstSpec.atCall (idx n : Nat) : DstSpec :=
  { σ := Nat
    step := fun calls _ _ => (calls + 1, if calls = idx then some n else none) }

/-- A source seen through `io.ReadFull` and single `Read`s: the bytes still to
    come and whether the end is EOF or an error. (That the result of those
    calls depends only on the concatenation of the pieces a real reader
    delivers is `AgeModel.IO`.) -/
structure Src where
  data : Bytes
  fail : Bool
deriving Repr

/-! ## Impl layer: Writer -/

structure Writer (S : DstSpec) where
  buf : Bytes            -- `unwritten`
  ctr : Nat              -- the 88-bit counter part of `nonce`
  err : Option Outcome   -- sticky `w.err`
  dst : Dst S

def Writer.new {S : DstSpec} (d : Dst S) : Writer S := { buf := [], ctr := 0, err := none, dst := d }

/-- `flushChunk`: seal the buffer, write it, clear the buffer, bump the counter.
    Returns the error of the destination write (or the panic). -/
def Writer.flush {S : DstSpec} (A : AEAD) (C L : Nat) (k : Bytes) (w : Writer S) (last : Bool) :
    Writer S × Option Outcome :=
  if !last && w.buf.length ≠ C then (w, some (.panic 2))
  else
    let (d', ok) := w.dst.write (A.sealF k (nonce w.ctr last) w.buf)
    if w.ctr + 1 ≥ L then ({ w with buf := [], dst := d' }, some (.panic 3))
    else ({ w with buf := [], ctr := w.ctr + 1, dst := d' }, if ok then none else some .dstErr)

/-- the `for len(p) > 0` loop of `Write` -/
def Writer.fill {S : DstSpec} (A : AEAD) (C L : Nat) (k : Bytes) (w : Writer S) (p : Bytes) (fuel : Nat) :
    Writer S × Option Outcome :=
  match fuel with
  | 0 => (w, some .fuel)
  | fuel+1 =>
    if p.length = 0 then (w, none)
    else
      let n := min (C - w.buf.length) p.length
      let w1 := { w with buf := w.buf ++ p.take n }
      let p1 := p.drop n
      if w1.buf.length = C ∧ p1.length > 0 then
        match w1.flush A C L k false with
        | (w2, some e) => (w2, some e)
        | (w2, none) => w2.fill A C L k p1 fuel
      else w1.fill A C L k p1 fuel

/-- `Write(p)`: returns the new state, the reported count and the reported error -/
def Writer.write {S : DstSpec} (A : AEAD) (C L : Nat) (k : Bytes) (w : Writer S) (p : Bytes) :
    Writer S × Nat × Option Outcome :=
  match w.err with
  | some e => (w, 0, some e)
  | none =>
    if p.length = 0 then (w, 0, none)
    else match w.fill A C L k p (p.length + 2) with
      | (w', some e) => ({ w' with err := some e }, 0, some e)
      | (w', none) => (w', p.length, none)

/-- `Close()` -/
def Writer.close {S : DstSpec} (A : AEAD) (C L : Nat) (k : Bytes) (w : Writer S) :
    Writer S × Option Outcome :=
  match w.err with
  | some e => (w, some e)
  | none =>
    match w.flush A C L k true with
    | (w', some e) => ({ w' with err := some e }, some e)
    | (w', none) => ({ w' with err := some .closed }, none)

inductive WOp
  | write (p : Bytes)
  | close
deriving Repr

/-- result of one writer call: reported count (0 for close) and error -/
abbrev WRes := Nat × Option Outcome

def Writer.step {S : DstSpec} (A : AEAD) (C L : Nat) (k : Bytes) (w : Writer S) : WOp → Writer S × WRes
  | .write p => let (w', n, e) := w.write A C L k p; (w', (n, e))
  | .close => let (w', e) := w.close A C L k; (w', (0, e))

def Writer.run {S : DstSpec} (A : AEAD) (C L : Nat) (k : Bytes) (w : Writer S) : List WOp → Writer S × List WRes
  | [] => (w, [])
  | op :: ops =>
    let (w1, r) := w.step A C L k op
    let (w2, rs) := w1.run A C L k ops
    (w2, r :: rs)

/-! ## Impl layer: Reader -/

structure Reader where
  unread : Bytes
  err : Option Outcome
  ctr : Nat
  src : Src
  taken : Nat            -- bytes requested from the source so far (look-ahead accounting)
deriving Repr

def Reader.new (s : Src) : Reader := { unread := [], err := none, ctr := 0, src := s, taken := 0 }

/-- `readChunk`: returns (state, Except error last) -/
def Reader.readChunk (A : AEAD) (C L : Nat) (k : Bytes) (r : Reader) : Reader × Except Outcome Bool :=
  if r.unread.length ≠ 0 then (r, .error (.panic 1))
  else
    let E := C + A.T
    let inb := r.src.data.take E
    let r1 := { r with src := { r.src with data := r.src.data.drop E }, taken := r.taken + E }
    let n := inb.length
    if n < E ∧ r.src.fail then (r1, .error .srcErr)            -- `case err != nil`
    else if n = 0 then (r1, .error .truncated)                  -- io.EOF
    else
      -- n = E (no error) or 0 < n < E (io.ErrUnexpectedEOF)
      if n < E ∧ r.ctr ≠ 0 ∧ n = A.T then (r1, .error .emptyLast)
      else
        let last0 := decide (n < E)
        let res : Option (Bytes × Bool) :=
          match A.openF k (nonce r.ctr last0) inb with
          | some out => some (out, last0)
          | none =>
            if last0 then none
            else match A.openF k (nonce r.ctr true) inb with
              | some out => some (out, true)
              | none => none
        match res with
        | none => (r1, .error .authFail)
        | some (out, last) =>
          if r.ctr + 1 ≥ L then (r1, .error (.panic 3))
          else ({ r1 with ctr := r.ctr + 1, unread := out }, .ok last)

/-- the one-byte probe after the final chunk -/
def Reader.probe (r : Reader) : Reader :=
  match r.src.data with
  | _ :: rest => { r with err := some .trailing, src := { r.src with data := rest }, taken := r.taken + 1 }
  | [] => { r with err := some (if r.src.fail then .srcErr else .eof), taken := r.taken + 1 }

/-- `Read(p)` with `len(p) = n`: new state, bytes copied into `p`, reported error -/
def Reader.read (A : AEAD) (C L : Nat) (k : Bytes) (r : Reader) (n : Nat) : Reader × Bytes × Option Outcome :=
  if r.unread.length > 0 then
    ({ r with unread := r.unread.drop n }, r.unread.take n, none)
  else match r.err with
    | some e => (r, [], some e)
    | none =>
      if n = 0 then (r, [], none)
      else match r.readChunk A C L k with
        | (r1, .error e) => ({ r1 with err := some e }, [], some e)
        | (r1, .ok last) =>
          let out := r1.unread.take n
          let r2 := { r1 with unread := r1.unread.drop n }
          (if last then r2.probe else r2, out, none)

/-- run a list of `Read` sizes, collecting the bytes and the first reported error -/
def Reader.drain (A : AEAD) (C L : Nat) (k : Bytes) (r : Reader) : List Nat → Reader × Bytes × Option Outcome
  | [] => (r, [], none)
  | n :: ns =>
    match r.read A C L k n with
    | (r1, out, some e) => (r1, out, some e)
    | (r1, out, none) =>
      let (r2, out2, e) := r1.drain A C L k ns
      (r2, out ++ out2, e)

/-- per-call trace (bytes, error) for every `Read`, without stopping at errors -/
def Reader.trace (A : AEAD) (C L : Nat) (k : Bytes) (r : Reader) : List Nat → List (Bytes × Option Outcome)
  | [] => []
  | n :: ns =>
    let (r1, out, e) := r.read A C L k n
    (out, e) :: r1.trace A C L k ns

end Stream
end AgeModel
