/-
  AgeModel.Recipients — the four native recipient / identity constructions
  (x25519.go, scrypt.go, agessh/agessh.go) and custom ones, as functions from the
  file key (and the random values drawn) to stanzas, and from stanzas to an
  unwrap result. Mirrors the order and the error class of every check.
-/
import AgeModel.Prims
import AgeModel.Format
namespace AgeModel
open Format

/-- `"age-encryption.org/v1/X25519"` -/
def x25519Label : Bytes := [97, 103, 101, 45, 101, 110, 99, 114, 121, 112, 116, 105, 111, 110, 46, 111, 114, 103, 47, 118, 49, 47, 88, 50, 53, 53, 49, 57]
/-- `"age-encryption.org/v1/scrypt"` -/
def scryptLabel : Bytes := [97, 103, 101, 45, 101, 110, 99, 114, 121, 112, 116, 105, 111, 110, 46, 111, 114, 103, 47, 118, 49, 47, 115, 99, 114, 121, 112, 116]
/-- `"age-encryption.org/v1/ssh-rsa"` -/
def oaepLabel : Bytes := [97, 103, 101, 45, 101, 110, 99, 114, 121, 112, 116, 105, 111, 110, 46, 111, 114, 103, 47, 118, 49, 47, 115, 115, 104, 45, 114, 115, 97]
/-- `"age-encryption.org/v1/ssh-ed25519"` -/
def ed25519Label : Bytes := [97, 103, 101, 45, 101, 110, 99, 114, 121, 112, 116, 105, 111, 110, 46, 111, 114, 103, 47, 118, 49, 47, 115, 115, 104, 45, 101, 100, 50, 53, 53, 49, 57]
/-- `"X25519"` -/
def tX25519 : Bytes := [88, 50, 53, 53, 49, 57]
/-- `"scrypt"` -/
def tScrypt : Bytes := [115, 99, 114, 121, 112, 116]
/-- `"ssh-rsa"` -/
def tSshRsa : Bytes := [115, 115, 104, 45, 114, 115, 97]
/-- `"ssh-ed25519"` -/
def tSshEd : Bytes := [115, 115, 104, 45, 101, 100, 50, 53, 53, 49, 57]

def fileKeySize : Nat := 16
def scryptSaltSize : Nat := 16

/-- decimal digits of a natural number (`strconv.Itoa` on non-negative values) -/
def natToDec (n : Nat) : Bytes := (Nat.toDigits 10 n).map fun c => c.toNat.toUInt8

/-- `^[1-9][0-9]*$` followed by `strconv.Atoi`: the value, if the string is a
    canonical positive decimal that fits an int (int64) -/
def parseWorkFactor (w : Bytes) : Option Nat :=
  match w with
  | [] => none
  | d :: ds =>
    if 49 ≤ d.toNat ∧ d.toNat ≤ 57 ∧ ds.all (fun c => 48 ≤ c.toNat && c.toNat ≤ 57) then
      let v := (d :: ds).foldl (fun acc c => acc * 10 + (c.toNat - 48)) 0
      if v < 2 ^ 63 then some v else none
    else none

def hexLower (b : Bytes) : Bytes :=
  b.flatMap fun x =>
    let d (n : Nat) : UInt8 := if n < 10 then (48 + n).toUInt8 else (87 + n).toUInt8
    [d (x.toNat / 16), d (x.toNat % 16)]

/-- `sshFingerprint`: base64 of the first four bytes of SHA-256 of the wire-format key -/
def sshTag (P : Prims) (wire : Bytes) : Bytes := B64.encRaw ((P.sha256 wire).take 4)

inductive UnwrapResult
  | key (k : Bytes)
  | incorrect            -- wraps ErrIncorrectIdentity: the next stanza / identity is tried
  | fatal                -- any other error: Decrypt stops
deriving DecidableEq, Repr

/-! ### wrapping (encryption side). Random values are explicit arguments. -/

def wrapX25519 (P : Prims) (theirPub eph fileKey : Bytes) : Option Stanza := do
  let ourPub ← P.x25519 eph P.basepoint
  let shared ← P.x25519 eph theirPub
  let key := P.hkdf shared (ourPub ++ theirPub) x25519Label 32
  pure { type := tX25519, args := [B64.encRaw ourPub], body := P.wrapSeal key fileKey }

def wrapScrypt (P : Prims) (password : Bytes) (logN : Nat) (salt fileKey : Bytes) : Stanza :=
  let key := P.scrypt password (scryptLabel ++ salt) logN
  { type := tScrypt, args := [B64.encRaw salt, natToDec logN], body := P.wrapSeal key fileKey }

def wrapSshEd (P : Prims) (wire theirPub eph fileKey : Bytes) : Option Stanza := do
  let ourPub ← P.x25519 eph P.basepoint
  let shared ← P.x25519 eph theirPub
  let tweak := P.hkdf [] wire ed25519Label 32
  -- `sharedSecret, _ = curve25519.X25519(tweak, sharedSecret)`: the error is dropped
  let shared2 := (P.x25519 tweak shared).getD []
  let key := P.hkdf shared2 (ourPub ++ theirPub) ed25519Label 32
  pure { type := tSshEd, args := [sshTag P wire, B64.encRaw ourPub], body := P.wrapSeal key fileKey }

def wrapSshRsa (P : Prims) (wire pub seed fileKey : Bytes) : Option Stanza := do
  let c ← P.oaepEnc pub seed fileKey oaepLabel
  pure { type := tSshRsa, args := [sshTag P wire], body := c }

/-! ### unwrapping (decryption side), one stanza -/

/-- `aeadDecrypt(key, size, ct)` of package age: length check first -/
def aeadDecryptSized (P : Prims) (key : Bytes) (size : Nat) (ct : Bytes) : UnwrapResult :=
  if ct.length ≠ size + P.aead.T then .fatal
  else match P.wrapOpen key ct with
    | some k => .key k
    | none => .incorrect

def unwrapX25519 (P : Prims) (sk : Bytes) (s : Stanza) : UnwrapResult :=
  if s.type ≠ tX25519 then .incorrect
  else match s.args with
    | [a] =>
      match decodeString a with
      | none => .fatal
      | some pk =>
        if pk.length ≠ 32 then .fatal
        else match P.x25519 sk pk with
          | none => .fatal
          | some shared =>
            let ourPub := (P.x25519 sk P.basepoint).getD []   -- computed at construction, error dropped
            let key := P.hkdf shared (pk ++ ourPub) x25519Label 32
            aeadDecryptSized P key fileKeySize s.body
    | _ => .fatal

/-- scrypt: returns the result and the list of work factors for which a key was derived -/
def unwrapScrypt (P : Prims) (password : Bytes) (maxWF : Nat) (s : Stanza) : UnwrapResult × List Nat :=
  if s.type ≠ tScrypt then (.incorrect, [])
  else match s.args with
    | [a, w] =>
      match decodeString a with
      | none => (.fatal, [])
      | some salt =>
        if salt.length ≠ scryptSaltSize then (.fatal, [])
        else match parseWorkFactor w with
          | none => (.fatal, [])
          | some logN =>
            if logN > maxWF then (.fatal, [])
            else
              let key := P.scrypt password (scryptLabel ++ salt) logN
              (aeadDecryptSized P key fileKeySize s.body, [logN])
    | _ => (.fatal, [])

def unwrapSshEd (P : Prims) (wire sk : Bytes) (s : Stanza) : UnwrapResult :=
  if s.type ≠ tSshEd then .incorrect
  else match s.args with
    | [tag, a] =>
      match decodeString a with
      | none => .fatal
      | some pk =>
        if pk.length ≠ 32 then .fatal
        else if tag ≠ sshTag P wire then .incorrect
        else match P.x25519 sk pk with
          | none => .fatal
          | some shared =>
            let tweak := P.hkdf [] wire ed25519Label 32
            let shared2 := (P.x25519 tweak shared).getD []
            let ourPub := (P.x25519 sk P.basepoint).getD []
            let key := P.hkdf shared2 (pk ++ ourPub) ed25519Label 32
            -- agessh's aeadDecrypt has no size check and every failure is fatal
            match P.wrapOpen key s.body with
            | some k => .key k
            | none => .fatal
    | _ => .fatal

def unwrapSshRsa (P : Prims) (wire priv : Bytes) (s : Stanza) : UnwrapResult :=
  if s.type ≠ tSshRsa then .incorrect
  else match s.args with
    | [tag] =>
      if tag ≠ sshTag P wire then .incorrect
      else match P.oaepDec priv s.body oaepLabel with
        | some k => .key k
        | none => .fatal
    | _ => .fatal

/-- `multiUnwrap`: first stanza that does not answer "incorrect" decides -/
def multiUnwrap (f : Stanza → UnwrapResult) : List Stanza → UnwrapResult
  | [] => .incorrect
  | s :: ss =>
    match f s with
    | .incorrect => multiUnwrap f ss
    | r => r

/-- scrypt's multiUnwrap with the key-derivation log -/
def multiUnwrapLog (f : Stanza → UnwrapResult × List Nat) : List Stanza → UnwrapResult × List Nat
  | [] => (.incorrect, [])
  | s :: ss =>
    match f s with
    | (.incorrect, l) => let (r, l') := multiUnwrapLog f ss; (r, l ++ l')
    | (r, l) => (r, l)

/-! ### recipients and identities -/

inductive Recipient
  | x25519 (pub : Bytes)
  | scrypt (password : Bytes) (logN : Nat)
  | sshEd (wire mont : Bytes)
  | sshRsa (wire pub : Bytes)
  /-- any other implementation of age.Recipient (plugins, tests): the stanzas it
      returns for a file key (or failure) and its labels (`none`: does not
      implement RecipientWithLabels) -/
  | custom (wrap : Bytes → Option (List Stanza)) (labels : Option (List Bytes))

inductive Identity
  | x25519 (sk : Bytes)
  | scrypt (password : Bytes) (maxWF : Nat)
  | sshEd (wire sk : Bytes)
  | sshRsa (wire priv : Bytes)
  | custom (unwrap : List Stanza → UnwrapResult)

/-- `Identity.Unwrap(stanzas)` with the scrypt key-derivation log -/
def Identity.unwrapLog (P : Prims) : Identity → List Stanza → UnwrapResult × List Nat
  | .x25519 sk, ss => (multiUnwrap (unwrapX25519 P sk) ss, [])
  | .scrypt pw maxWF, ss =>
    -- "an scrypt recipient must be the only one", checked before anything else
    if ss.any (fun s => s.type = tScrypt) ∧ ss.length ≠ 1 then (.fatal, [])
    else multiUnwrapLog (unwrapScrypt P pw maxWF) ss
  | .sshEd wire sk, ss => (multiUnwrap (unwrapSshEd P wire sk) ss, [])
  | .sshRsa wire priv, ss => (multiUnwrap (unwrapSshRsa P wire priv) ss, [])
  | .custom f, ss => (f ss, [])

def Identity.unwrap (P : Prims) (i : Identity) (ss : List Stanza) : UnwrapResult := (i.unwrapLog P ss).1

/-- an EMPTY key from this identity is an empty but non-nil slice (ssh-rsa: `rsa.DecryptOAEP` of an empty message),
    not nil (ssh-ed25519: the AEAD's `Open` of an empty plaintext; the native types never return an empty key) -/
def Identity.emptyNonNil : Identity → Bool
  | .sshRsa _ _ => true
  | _ => false

end AgeModel
