/-
  AgeModel.KeyFile — identities / recipients files: one key per line.

  Models, for a file given as a byte string,

    * `bufio.Scanner` with the default `ScanLines` split function and the
      default buffer (`rawLines`, `dropCR`, `scan`): lines end at `\n`, ONE
      trailing `\r` is dropped from each line, a final line without `\n` is
      still a line, an empty remainder after the last `\n` is not; a raw line
      (without its `\n`, with its `\r`) of `maxTok` bytes or more cannot be
      buffered: the scanner stops there and `scanner.Err()` is non-nil
      (`maxTok` = `bufio.MaxScanTokenSize` = 65536: 65535 bytes + `\n` still
      fit, 65536 do not);
    * `io.LimitReader(f, limit)` (`limit` = 16 MiB): only the first `limit`
      bytes are seen (`List.take`);
    * the loop shared by `age.ParseIdentities`, `age.ParseRecipients`
      (/repo/parse.go) and `parseIdentities`, `parseRecipientsFile`
      (/repo/cmd/age/parse.go): count the line, skip it if it is empty or
      starts with `#`, otherwise parse it; the first failing line ends the
      parse with its number; after the loop `scanner.Err()`, then "no keys".

  The single-key parsers (Bech32, X25519, SSH, plugin names) belong to another
  model area and are PARAMETERS here (`Bytes → Option Key`); so are
  `sshKeyType` (`sniffSsh`) and `ssh.ParseAuthorizedKey(line)` succeeding
  (`sshValid`) in the CLI's recipients-file variant.

  Core Lean only.
-/
import AgeModel.Basic
namespace AgeModel
namespace KeyFile

/-! ## bufio.Scanner / ScanLines -/

/-- `\n`-separated raw lines as `ScanLines` finds them: `cur` is the part of the
    current line seen so far, most recent byte first. At the end of the data a
    non-empty remainder is a line, an empty one is not. -/
def rawLinesAux : Bytes → Bytes → List Bytes
  | cur, [] => if cur = [] then [] else [cur.reverse]
  | cur, c :: cs => if c = 10 then cur.reverse :: rawLinesAux [] cs else rawLinesAux (c :: cur) cs

def rawLines (b : Bytes) : List Bytes := rawLinesAux [] b

/-- `bufio.dropCR`: drop ONE trailing `\r` -/
def dropCR (l : Bytes) : Bytes := if l.getLast? = some 13 then l.dropLast else l

/-- what the scanner delivers: the tokens, and whether `scanner.Err() != nil` afterwards -/
structure Scan where
  lines : List Bytes
  err : Bool
deriving DecidableEq, Repr

/-- tokens are delivered up to the first raw line that does not fit the buffer -/
def scanFrom (maxTok : Nat) : List Bytes → Scan
  | [] => ⟨[], false⟩
  | r :: rs =>
    if maxTok ≤ r.length then ⟨[], true⟩
    else ⟨dropCR r :: (scanFrom maxTok rs).lines, (scanFrom maxTok rs).err⟩

def scan (maxTok : Nat) (b : Bytes) : Scan := scanFrom maxTok (rawLines b)

/-! ## the line loop -/

inductive KeyFileErr where
  /-- "error at line n" / "malformed recipient at line n" -/
  | atLine (n : Nat)
  /-- "no secret keys found" / "no recipients found" -/
  | noKeys
  /-- "failed to read …: bufio.Scanner: token too long" -/
  | scanErr
  /-- CLI recipients file only: "line n is too long" -/
  | lineTooLong (n : Nat)
deriving DecidableEq, Repr

/-- `strings.HasPrefix(line, "#") || line == ""` -/
def ignorable : Bytes → Bool
  | [] => true
  | c :: _ => c = 35

/-- a line that must yield a key -/
def content (l : Bytes) : Bool := !ignorable l

/-- what the loop body does with one line -/
inductive LineRes (Key : Type) where
  | blank                 -- `continue` (empty or comment)
  | key (k : Key)         -- appended
  | bad                   -- return "… at line n"
  | tooLong               -- return "line n is too long"   (CLI recipients file)
  | ignored               -- warning + `continue`          (CLI recipients file)
deriving DecidableEq, Repr

/-- result of a file-level parse together with the log of the line numbers for
    which a "ignoring unsupported SSH key" warning was emitted (always `[]`
    for the three entry points that have no such branch) -/
structure Outcome (Key : Type) where
  res : Except KeyFileErr (List Key)
  skipped : List Nat

/-- after the loop: `scanner.Err()` first, then the emptiness check -/
def finish {Key : Type} (scanErr : Bool) (ids : List Key) : Except KeyFileErr (List Key) :=
  if scanErr then .error .scanErr else if ids.isEmpty then .error .noKeys else .ok ids

/-- `for scanner.Scan() { n++; … }` with the Go variables `n`, `ids`/`recs`
    and the warnings written so far as accumulators -/
def loop {Key : Type} (cls : Bytes → LineRes Key) (scanErr : Bool) :
    Nat → List Bytes → List Key → List Nat → Outcome Key
  | _, [], ids, log => ⟨finish scanErr ids, log⟩
  | n, l :: ls, ids, log =>
    match cls l with
    | .blank => loop cls scanErr (n + 1) ls ids log
    | .key k => loop cls scanErr (n + 1) ls (ids ++ [k]) log
    | .ignored => loop cls scanErr (n + 1) ls ids (log ++ [n + 1])
    | .bad => ⟨.error (.atLine (n + 1)), log⟩
    | .tooLong => ⟨.error (.lineTooLong (n + 1)), log⟩

/-- the lines the loop sees for file contents `b` -/
def linesOf (maxTok limit : Nat) (b : Bytes) : List Bytes := (scan maxTok (b.take limit)).lines

/-- `scanner.Err() != nil` for file contents `b` -/
def scanFailed (maxTok limit : Nat) (b : Bytes) : Bool := (scan maxTok (b.take limit)).err

def parseFile {Key : Type} (cls : Bytes → LineRes Key) (maxTok limit : Nat) (b : Bytes) : Outcome Key :=
  loop cls (scanFailed maxTok limit b) 0 (linesOf maxTok limit b) [] []

/-! ## the four entry points -/

/-- loop body of `age.ParseIdentities`, `age.ParseRecipients`, and the CLI's `parseIdentities` -/
def libLine {Key : Type} (parseLine : Bytes → Option Key) (l : Bytes) : LineRes Key :=
  if ignorable l then .blank
  else match parseLine l with
    | some k => .key k
    | none => .bad

/-- the common shape of the three entry points without a skip branch -/
def parseLib {Key : Type} (parseLine : Bytes → Option Key) (maxTok limit : Nat) (b : Bytes) :
    Except KeyFileErr (List Key) :=
  (parseFile (libLine parseLine) maxTok limit b).res

/-- `age.ParseIdentities`; `parseLine` = `ParseX25519Identity` succeeding -/
def parseIdentities {Key : Type} (parseLine : Bytes → Option Key) (maxTok limit : Nat) (b : Bytes) :=
  parseLib parseLine maxTok limit b

/-- `age.ParseRecipients`; `parseLine` = `ParseX25519Recipient` succeeding -/
def parseRecipients {Key : Type} (parseLine : Bytes → Option Key) (maxTok limit : Nat) (b : Bytes) :=
  parseLib parseLine maxTok limit b

def isPrefix (p l : Bytes) : Bool := l.take p.length = p

def pfxPlugin : Bytes := [65, 71, 69, 45, 80, 76, 85, 71, 73, 78, 45]            -- "AGE-PLUGIN-"
def pfxSecret : Bytes := [65, 71, 69, 45, 83, 69, 67, 82, 69, 84, 45, 75, 69, 89, 45, 49] -- "AGE-SECRET-KEY-1"

/-- `parseIdentity` of cmd/age: route on the prefix, otherwise "unknown identity type" -/
def cliIdentityLine {Key : Type} (parsePlugin parseX25519 : Bytes → Option Key) (l : Bytes) : Option Key :=
  if isPrefix pfxPlugin l then parsePlugin l
  else if isPrefix pfxSecret l then parseX25519 l
  else none

/-- cmd/age `parseIdentities` -/
def cliParseIdentities {Key : Type} (parsePlugin parseX25519 : Bytes → Option Key) (maxTok limit : Nat) (b : Bytes) :=
  parseLib (cliIdentityLine parsePlugin parseX25519) maxTok limit b

def pfxAge1 : Bytes := [97, 103, 101, 49]        -- "age1"
def pfxSsh : Bytes := [115, 115, 104, 45]        -- "ssh-"
def sshRsa : Bytes := [115, 115, 104, 45, 114, 115, 97]                          -- "ssh-rsa"
def sshEd25519 : Bytes := [115, 115, 104, 45, 101, 100, 50, 53, 53, 49, 57]      -- "ssh-ed25519"

/-- `parseRecipient` of cmd/age: `age1…` with more than one `1` is a plugin
    recipient, other `age1…` an X25519 recipient, `ssh-…` an SSH public key;
    everything else (including the removed `github:`) is an error -/
def cliRecipientParse {Key : Type} (parsePlugin parseX25519 parseSsh : Bytes → Option Key) (l : Bytes) : Option Key :=
  if isPrefix pfxAge1 l && decide (1 < l.count 49) then parsePlugin l
  else if isPrefix pfxAge1 l then parseX25519 l
  else if isPrefix pfxSsh l then parseSsh l
  else none

/-- the condition under which `parseRecipientsFile` skips (with a warning) a line
    that failed to parse: `sshKeyType` recognises it, and either its type is not
    one age supports, or it is `ssh-rsa` and `ssh.ParseAuthorizedKey` accepts the
    line all the same (a well-formed key age refuses: too small). A failing
    `ssh-ed25519` line is never skipped. -/
def skipCond (sniffSsh : Bytes → Option Bytes) (sshValid : Bytes → Bool) (l : Bytes) : Bool :=
  match sniffSsh l with
  | some t => (t != sshRsa && t != sshEd25519) || (t == sshRsa && sshValid l)
  | none => false

/-- loop body of cmd/age `parseRecipientsFile` -/
def cliRecipientLine {Key : Type} (parseLine : Bytes → Option Key) (sniffSsh : Bytes → Option Bytes)
    (sshValid : Bytes → Bool) (lineLimit : Nat) (l : Bytes) : LineRes Key :=
  if ignorable l then .blank
  else if lineLimit < l.length then .tooLong
  else match parseLine l with
    | some k => .key k
    | none => if skipCond sniffSsh sshValid l then .ignored else .bad

/-- cmd/age `parseRecipientsFile` (`lineLimit` = 8192) -/
def cliParseRecipientsFile {Key : Type} (parseLine : Bytes → Option Key) (sniffSsh : Bytes → Option Bytes)
    (sshValid : Bytes → Bool) (lineLimit maxTok limit : Nat) (b : Bytes) : Outcome Key :=
  parseFile (cliRecipientLine parseLine sniffSsh sshValid lineLimit) maxTok limit b

/-! ## vocabulary of the property statements -/

/-- the key a line contributed -/
def keyOf {Key : Type} : LineRes Key → Option Key
  | .key k => some k
  | _ => none

/-- the line ends the parse -/
def fatal {Key : Type} : LineRes Key → Bool
  | .bad => true
  | .tooLong => true
  | _ => false

/-- 1-based numbers (counting from `n + 1`) of the lines with an `ignored` verdict -/
def ignoredNums {Key : Type} (cls : Bytes → LineRes Key) : Nat → List Bytes → List Nat
  | _, [] => []
  | n, l :: ls =>
    match cls l with
    | .ignored => (n + 1) :: ignoredNums cls (n + 1) ls
    | _ => ignoredNums cls (n + 1) ls

/-- files: lines joined with a terminator -/
def joinLF (ls : List Bytes) : Bytes := (ls.map (· ++ [10])).flatten
def joinCRLF (ls : List Bytes) : Bytes := (ls.map (· ++ [13, 10])).flatten

/-- a line a scanner can give back unchanged -/
def cleanLine (maxTok : Nat) (l : Bytes) : Prop := 10 ∉ l ∧ l.getLast? ≠ some 13 ∧ l.length + 1 < maxTok

end KeyFile
end AgeModel
