/-
  AgeModel.Conc — a small-step interleaving semantics for C20 (shared
  recipients and identities under concurrency).

  An operation (one Encrypt / Decrypt / Wrap / Unwrap call running in a
  goroutine) is a *thread*: a list of steps. A step reads a location, writes a
  location, or is local computation. Locations are either *shared* (the fields
  of the recipient / identity value, package-level variables — whatever several
  goroutines can reach) or *private* to a thread (what the operation allocates
  itself: its file key, header, stream state, buffers). The value a thread
  writes may depend on everything it has read so far, and a thread's result is
  a function of what it has read.

  A schedule is any list of thread ids; `run` executes it. There are as many
  threads as natural numbers (a program `Nat → Thread`); threads whose id does
  not occur in the schedule, or whose steps are exhausted, do nothing.

  Core Lean only. The theorems are in Props/C20.lean.
-/
namespace AgeModel.Conc

inductive Loc where
  | shared (n : Nat)
  | priv (tid n : Nat)
deriving DecidableEq, Repr

inductive Step where
  /-- read a location; the value is appended to the thread's read history -/
  | read (l : Loc)
  /-- write `f history` to a location -/
  | write (l : Loc) (f : List Nat → Nat)
  /-- local computation -/
  | tau

abbrev Thread := List Step
abbrev Store := Loc → Nat

def Step.loc? : Step → Option Loc
  | .read l => some l
  | .write l _ => some l
  | .tau => none

def Step.isWrite : Step → Bool
  | .write _ _ => true
  | _ => false

def setLoc (s : Store) (l : Loc) (v : Nat) : Store := fun l' => if l' = l then v else s l'

def upd {α : Type} (f : Nat → α) (i : Nat) (a : α) : Nat → α := fun j => if j = i then a else f j

/-- the state of the whole system -/
structure Cfg where
  store : Store
  /-- the steps each thread has still to execute -/
  rest : Nat → Thread
  /-- the values each thread has read so far, oldest first -/
  hist : Nat → List Nat

/-- thread `i` executes its next step (nothing happens if it has none) -/
def stepThread (c : Cfg) (i : Nat) : Cfg :=
  match c.rest i with
  | [] => c
  | .read l :: r => { store := c.store, rest := upd c.rest i r, hist := upd c.hist i (c.hist i ++ [c.store l]) }
  | .write l f :: r => { store := setLoc c.store l (f (c.hist i)), rest := upd c.rest i r, hist := c.hist }
  | .tau :: r => { store := c.store, rest := upd c.rest i r, hist := c.hist }

def run (c : Cfg) : List Nat → Cfg
  | [] => c
  | i :: σ => run (stepThread c i) σ

def init (P : Nat → Thread) (s : Store) : Cfg := { store := s, rest := P, hist := fun _ => [] }

/-- all threads of `P`, interleaved as the schedule `σ` says -/
def runInterleaved (P : Nat → Thread) (s : Store) (σ : List Nat) : Cfg := run (init P s) σ

/-- thread `i` alone: `k` of its steps, nobody else moves -/
def runSolo (P : Nat → Thread) (s : Store) (i k : Nat) : Cfg := run (init P s) (List.replicate k i)

/-- Two steps conflict (a data race, if unordered) when they belong to different
    threads, touch the same location, and at least one of them writes. -/
def conflict (i : Nat) (a : Step) (j : Nat) (b : Step) : Prop :=
  i ≠ j ∧ ∃ l, a.loc? = some l ∧ b.loc? = some l ∧ (a.isWrite = true ∨ b.isWrite = true)

/-- No thread ever writes a shared location. For the Go code this is what
    `Tie.C20.no_shared_store` / `no_mutated_global` establish on the regenerated
    effect summary. -/
def NoSharedWrite (P : Nat → Thread) : Prop :=
  ∀ i l f, Step.write l f ∈ P i → ∀ n, l ≠ Loc.shared n

/-- A thread touches only shared locations and its own private ones (private
    locations are, by definition, what the operation allocated itself). -/
def WellScoped (P : Nat → Thread) : Prop :=
  ∀ i st, st ∈ P i → ∀ j n, st.loc? = some (Loc.priv j n) → j = i

end AgeModel.Conc
