/-
  AgeModel.IO — how a real `io.Reader` delivers bytes, and `io.ReadFull` over it.

  A source is a *schedule*: the pieces successive `Read` calls return (a piece
  may be empty: a `(0, nil)` read), then a last piece that arrives TOGETHER with
  the end condition (empty for the usual `(0, io.EOF)`; non-empty for readers
  that return data and `io.EOF` from one call, e.g. `iotest.DataErrReader`),
  and whether the end is `io.EOF` or an error.  A `Read(p)` never returns more
  than `len(p)` bytes: a longer piece is split, its tail stays first in line.

  `readFull` transcribes `io.ReadFull`/`io.ReadAtLeast`:

      for n < min && err == nil { nn, err = r.Read(buf[n:]); n += nn }
      if n >= min { err = nil } else if n > 0 && err == io.EOF { err = io.ErrUnexpectedEOF }

  `Proofs/IO.lean` proves that its result, and what is left of the source, depend
  only on the concatenation of the pieces and the kind of end — which is what
  lets the rest of the model describe a source as `Stream.Src` (bytes + end).
-/
import AgeModel.Basic
namespace AgeModel
namespace IO

structure Sched where
  pieces : List Bytes
  last : Bytes          -- delivered together with the end condition
  fail : Bool           -- the end is an error (true) or io.EOF (false)

/-- all the bytes the source will ever deliver -/
def Sched.flat (s : Sched) : Bytes := s.pieces.flatten ++ s.last

inductive Status
  | ok                 -- `n` bytes read, nil error
  | eof                -- (0, io.EOF)
  | unexpectedEOF      -- 0 < got < n, io.ErrUnexpectedEOF
  | err                -- the source's error (with whatever was read before it)
deriving DecidableEq, Repr

/-- `io.ReadFull(src, buf[:n])` having already `got`: the bytes in `buf`, the status, the source afterwards -/
def readFull (n : Nat) (fail : Bool) : Bytes → List Bytes → Bytes → Bytes × Status × Sched
  | got, p :: ps, last =>
    if n ≤ got.length then (got, .ok, ⟨p :: ps, last, fail⟩)
    else if p.length ≤ n - got.length then readFull n fail (got ++ p) ps last      -- the whole piece fits: next Read
    else (got ++ p.take (n - got.length), .ok, ⟨p.drop (n - got.length) :: ps, last, fail⟩)
  | got, [], last =>
    if n ≤ got.length then (got, .ok, ⟨[], last, fail⟩)
    else if n - got.length < last.length then
      -- the last piece is longer than what is asked for: an ordinary read, the end comes later
      (got ++ last.take (n - got.length), .ok, ⟨[], last.drop (n - got.length), fail⟩)
    else
      -- the Read that returns the rest of the data also returns the end condition
      let got' := got ++ last
      if n ≤ got'.length then (got', .ok, ⟨[], [], fail⟩)            -- `if n >= min { err = nil }`
      else if fail then (got', .err, ⟨[], [], fail⟩)
      else if got'.isEmpty then (got', .eof, ⟨[], [], fail⟩)
      else (got', .unexpectedEOF, ⟨[], [], fail⟩)

/-- what `io.ReadFull` returns as a function of the bytes to come and the kind of end only -/
def readFullSpec (n : Nat) (data : Bytes) (fail : Bool) : Bytes × Status :=
  if n ≤ data.length then (data.take n, .ok)
  else if fail then (data, .err)
  else if data.isEmpty then (data, .eof)
  else (data, .unexpectedEOF)

end IO
end AgeModel
