/-
  AgeModel.Format — the age header (internal/format/format.go).

  `marshal`  mirrors Header.Marshal / Stanza.Marshal / WrappedBase64Encoder.
  `parse`    mirrors Parse / StanzaReader.ReadStanza line by line on a byte
             string and returns the header together with the unread remainder.
  Strings are byte lists (the code only compares them bytewise; the one
  rune-wise loop, isValidString, accepts exactly the bytes 33..126).
-/
import AgeModel.B64
namespace AgeModel
namespace Format

def nl : UInt8 := 10
def sp : UInt8 := 32
def cr : UInt8 := 13

structure Stanza where
  type : Bytes
  args : List Bytes
  body : Bytes
deriving DecidableEq, Repr

structure Header where
  stanzas : List Stanza
  mac : Bytes
deriving DecidableEq, Repr

/-- `"age-encryption.org/v1\n"` -/
def intro : Bytes := [97, 103, 101, 45, 101, 110, 99, 114, 121, 112, 116, 105, 111, 110, 46, 111, 114, 103, 47, 118, 49, 10]
/-- `"->"` -/
def stanzaPrefix : Bytes := [45, 62]
/-- `"---"` -/
def footerPrefix : Bytes := [45, 45, 45]
def columnsPerLine : Nat := 64
def bytesPerLine : Nat := 48

/-! ### marshalling -/

/-- WrappedBase64Encoder: a newline after every 64 columns, none at the end, so
    the last line is shorter than 64 columns (possibly empty) -/
def wrap (cs : Bytes) : Bytes :=
  if h : cs.length < 64 then cs else cs.take 64 ++ nl :: wrap (cs.drop 64)
termination_by cs.length
decreasing_by simp; omega

/-- `" " ++ a` for every element -/
def spaced : List Bytes → Bytes
  | [] => []
  | a :: as => sp :: a ++ spaced as

def marshalStanza (s : Stanza) : Bytes :=
  stanzaPrefix ++ spaced (s.type :: s.args) ++ [nl] ++ wrap (B64.encRaw s.body) ++ [nl]

def marshalStanzas : List Stanza → Bytes
  | [] => []
  | s :: ss => marshalStanza s ++ marshalStanzas ss

/-- Header.MarshalWithoutMAC: everything the MAC covers, up to and including `---` -/
def marshalNoMAC (h : Header) : Bytes := intro ++ marshalStanzas h.stanzas ++ footerPrefix

def marshal (h : Header) : Bytes := marshalNoMAC h ++ [sp] ++ B64.encRaw h.mac ++ [nl]

/-! ### parsing -/

inductive Err
  | intro        -- missing / wrong first line
  | eof          -- input ended inside the header
  | footer       -- malformed closing line or MAC
  | stanzaLine   -- malformed stanza opening line
  | bodyLine     -- malformed body line
  | fuel
deriving DecidableEq, Repr

/-- `ReadBytes('\n')`: the line without its terminator and the rest; `none` if
    there is no newline (the reader hits EOF) -/
def takeLine : Bytes → Option (Bytes × Bytes)
  | [] => none
  | c :: cs => if c = nl then some ([], cs) else
      match takeLine cs with
      | some (l, r) => some (c :: l, r)
      | none => none

/-- `strings.Split(l, " ")` -/
def splitSp : Bytes → List Bytes
  | [] => [[]]
  | c :: cs =>
    if c = sp then [] :: splitSp cs
    else match splitSp cs with
      | h :: t => (c :: h) :: t
      | [] => [[c]]

/-- isValidString: non-empty, all bytes in 33..126 -/
def validString (s : Bytes) : Bool := !s.isEmpty && s.all fun c => 33 ≤ c.toNat && c.toNat ≤ 126

/-- format.DecodeString: reject CR/LF, then strict unpadded base64 -/
def decodeString (s : Bytes) : Option Bytes :=
  if s.any (fun c => c = nl || c = cr) then none else B64.decRaw s

/-- the body-line loop of ReadStanza -/
def readBody (fuel : Nat) (r acc : Bytes) : Except Err (Bytes × Bytes) :=
  match fuel with
  | 0 => .error .fuel
  | fuel+1 =>
    match takeLine r with
    | none => .error .eof
    | some (l, r') =>
      match decodeString l with
      | none => .error .bodyLine
      | some d =>
        if d.length > 48 then .error .bodyLine
        else if d.length < 48 then .ok (acc ++ d, r')
        else readBody fuel r' (acc ++ d)

/-- ReadStanza -/
def readStanza (r : Bytes) : Except Err (Stanza × Bytes) :=
  match takeLine r with
  | none => .error .eof
  | some (l, r') =>
    match splitSp l with
    | pre :: t :: args =>
      if pre = stanzaPrefix ∧ (t :: args).all validString then
        match readBody (r'.length + 1) r' [] with
        | .error e => .error e
        | .ok (body, r'') => .ok ({ type := t, args := args, body := body }, r'')
      else .error .stanzaLine
    | _ => .error .stanzaLine

/-- the closing line `--- <mac>` -/
def readFooter (r : Bytes) : Except Err (Bytes × Bytes) :=
  match takeLine r with
  | none => .error .eof
  | some (l, r') =>
    match splitSp l with
    | [pre, m] =>
      if pre = footerPrefix then
        match decodeString m with
        | some mac => if mac.length = 32 then .ok (mac, r') else .error .footer
        | none => .error .footer
      else .error .footer
    | _ => .error .footer

/-- the stanza loop of Parse: peek three bytes, footer or stanza -/
def readStanzas (fuel : Nat) (r : Bytes) (acc : List Stanza) : Except Err (Header × Bytes) :=
  match fuel with
  | 0 => .error .fuel
  | fuel+1 =>
    if r.length < 3 then .error .eof
    else if r.take 3 = footerPrefix then
      match readFooter r with
      | .error e => .error e
      | .ok (mac, r') => .ok ({ stanzas := acc.reverse, mac := mac }, r')
    else
      match readStanza r with
      | .error e => .error e
      | .ok (s, r') => readStanzas fuel r' (s :: acc)

/-- format.Parse: header and the unread remainder (the payload) -/
def parse (b : Bytes) : Except Err (Header × Bytes) :=
  match takeLine b with
  | none => .error .intro
  | some (l, r) =>
    if l ++ [nl] = intro then readStanzas (r.length + 1) r [] else .error .intro

/-- well-formed header: what `marshal` can be applied to meaningfully -/
def Stanza.WF (s : Stanza) : Prop := validString s.type = true ∧ ∀ a ∈ s.args, validString a = true
def Header.WF (h : Header) : Prop := (∀ s ∈ h.stanzas, s.WF) ∧ h.mac.length = 32

end Format
end AgeModel
