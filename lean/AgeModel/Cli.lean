/-
  AgeModel.Cli — decision-logic model of the two command line programs,
  cmd/age (age.go, tui.go, parse.go) and cmd/age-keygen (keygen.go).

  What is modelled: the order of checks and effects of `main`, i.e. which
  condition makes the program exit with status 1 *before* or *after* which
  file is created, truncated or written; the lexical path comparison that
  refuses an output naming an input; `lazyOpener`; the order of effects in
  `decrypt` and `encrypt`; `errorf → os.Exit(1)` (deferred calls do not run);
  age-keygen's `O_EXCL|0600` open.

  What is abstracted: all cryptographic work is an `Oracle` (does this
  recipient string parse, does `age.Decrypt` return a reader, which plaintext
  does the reader yield and where does it fail, which byte string does
  encryption produce).  The operating system is a `World`: a finite map from
  cleaned absolute paths to nodes, the process' working directory, umask and
  RLIMIT_FSIZE, and the kind of standard output.  No symbolic or hard links,
  no permissions (the process is assumed allowed to read and write whatever
  exists), no concurrent processes.

  Core Lean only: this file is linked into the `agemodel` driver.
-/
import AgeModel.Basic
namespace AgeModel
namespace Cli

/-! ## Lexical paths (path/filepath.Clean, filepath.Abs on Unix) -/

/-- a cleaned absolute path: the components below the root, outermost first -/
abbrev Path := List Bytes

def slash : UInt8 := 47
def dot : UInt8 := 46
def dash : Bytes := [45]
def dotB : Bytes := [dot]
def dotdot : Bytes := [dot, dot]

/-- split at every `/`; always at least one (possibly empty) component -/
def splitSlash : Bytes → List Bytes
  | [] => [[]]
  | c :: rest =>
    if c = slash then [] :: splitSlash rest
    else match splitSlash rest with
      | [] => [[c]]
      | x :: xs => (c :: x) :: xs

/-- one component applied to a reversed stack of components of a rooted path:
    empty and `.` are dropped, `..` removes the last component (and is dropped
    at the root), anything else is appended. -/
def stepRooted (st : List Bytes) (c : Bytes) : List Bytes :=
  if c = [] ∨ c = dotB then st
  else if c = dotdot then st.tail
  else c :: st

/-- the same for a relative path: a `..` that cannot be cancelled is kept -/
def stepRel (st : List Bytes) (c : Bytes) : List Bytes :=
  if c = [] ∨ c = dotB then st
  else if c = dotdot then
    match st with
    | [] => [dotdot]
    | t :: rest => if t = dotdot then dotdot :: st else rest
  else c :: st

def rooted (p : Bytes) : Bool :=
  match p with
  | c :: _ => c = slash
  | [] => false

def joinSlash : List Bytes → Bytes
  | [] => []
  | [c] => c
  | c :: cs => c ++ slash :: joinSlash cs

/-- the string form of a cleaned absolute path -/
def render (t : Path) : Bytes := slash :: joinSlash t

/-- `filepath.Clean` for `/`-separated paths -/
def clean (p : Bytes) : Bytes :=
  if rooted p then render ((splitSlash p).foldl stepRooted []).reverse
  else
    let r := joinSlash ((splitSlash p).foldl stepRel []).reverse
    if r = [] then dotB else r

/-- `filepath.Abs` with working directory `cwd`: `Clean(p)` for a rooted `p`,
    `Clean(cwd + "/" + p)` otherwise; as a component list. (`absPath` in age.go
    falls back to the name itself only if `os.Getwd` fails, which the model
    does not consider.) -/
def absPath (cwd : Path) (p : Bytes) : Path :=
  ((splitSlash p).foldl stepRooted (if rooted p then [] else cwd.reverse)).reverse

/-- a component a cleaned path can contain -/
def NormalComp (c : Bytes) : Prop := c ≠ [] ∧ c ≠ dotB ∧ c ≠ dotdot ∧ slash ∉ c

def ValidPath (t : Path) : Prop := ∀ c ∈ t, NormalComp c

/-! ## The world -/

inductive Node
  | absent
  | file (content : Bytes) (mode : Nat)
  | dir
  | devFull          -- a device that opens but rejects every write (/dev/full)
  deriving DecidableEq, Repr

/-- what standard output is connected to -/
inductive Stdout
  | terminal                      -- accepts everything
  | devFull                       -- rejects every write, even an empty one
  | limited (cap : Option Nat)    -- a pipe or file that accepts `cap` bytes in total
                                  -- (reader closes after `cap` bytes, RLIMIT_FSIZE, full disk)
  deriving DecidableEq, Repr

structure World where
  cwd : Path
  nodes : List (Path × Node) := []
  /-- RLIMIT_FSIZE in bytes, for regular files the process writes -/
  fsize : Option Nat := none
  umask : Nat := 0o022
  stdinTerminal : Bool := false
  stdout : Stdout := .limited none
  /-- `close(2)` of a written file reports an error -/
  closeFails : Bool := false
  deriving Repr

def lookup (t : Path) : List (Path × Node) → Option Node
  | [] => none
  | (k, n) :: rest => if k = t then some n else lookup t rest

namespace World

def get (w : World) (t : Path) : Node :=
  match lookup t w.nodes with
  | some n => n
  | none => if t = [] then .dir else .absent

def set (w : World) (t : Path) (n : Node) : World := { w with nodes := (t, n) :: w.nodes }

def isDir (w : World) (t : Path) : Bool := w.get t = .dir

end World

/-- permission bits of a created file: `mode &^ umask` -/
def applyUmask (mode umask : Nat) : Nat := mode &&& (0o777 ^^^ (umask &&& 0o777))

/-- path resolution by the kernel (no links): every directory walked through
    must exist; the reversed component stack is threaded through -/
def walk (w : World) : List Bytes → List Bytes → Option (List Bytes)
  | st, [] => some st
  | st, c :: cs => if w.isDir st.reverse then walk w (stepRooted st c) cs else none

def resolve (w : World) (p : Bytes) : Option Path :=
  if p = [] then none
  else (walk w (if rooted p then [] else w.cwd.reverse) (splitSlash p)).map List.reverse

inductive ReadOpen
  | fail        -- open(2) fails
  | dir         -- open succeeds, every read fails (EISDIR)
  | ok
  deriving DecidableEq, Repr

/-- `os.Open(name)` followed by reading -/
def openRead (w : World) (p : Bytes) : ReadOpen :=
  match resolve w p with
  | none => .fail
  | some t =>
    match w.get t with
    | .file _ _ => .ok
    | .dir => .dir
    | _ => .fail        -- absent; reading devices is not modelled

/-- `os.Create(name)`: `O_RDWR|O_CREATE|O_TRUNC, 0666` -/
def create (w : World) (p : Bytes) : Option (World × Path) :=
  match resolve w p with
  | none => none
  | some t =>
    match w.get t with
    | .absent => some (w.set t (.file [] (applyUmask 0o666 w.umask)), t)
    | .file _ m => some (w.set t (.file [] m), t)
    | .devFull => some (w, t)
    | .dir => none

/-- `os.OpenFile(name, O_WRONLY|O_CREATE|O_EXCL, 0600)` -/
def createExcl (w : World) (p : Bytes) : Option (World × Path) :=
  match resolve w p with
  | none => none
  | some t =>
    match w.get t with
    | .absent => some (w.set t (.file [] (applyUmask 0o600 w.umask)), t)
    | _ => none

/-- a destination with total capacity `cap` that already holds `have_` bytes is
    offered `d`: the part it takes, and whether the write call succeeds
    (`have_ ≤ cap` in every reachable state) -/
def accept (cap : Option Nat) (have_ : Nat) (d : Bytes) : Bytes × Bool :=
  match cap with
  | none => (d, true)
  | some c => if have_ + d.length ≤ c then (d, true) else (d.take (c - have_), false)

/-! ## The running process -/

/-- `lazyOpener` -/
inductive Lazy
  | unopened
  | opened (t : Path)
  | failed
  deriving DecidableEq, Repr

/-- what `out` is in `main` -/
inductive Dest
  | stdout
  | buffered               -- a bytes.Buffer copied to stdout when main returns (encrypting, terminal to terminal)
  | lazy (name : Bytes)
  deriving DecidableEq, Repr

structure Proc where
  w : World
  emitted : Bytes := []    -- bytes standard output has accepted
  buf : Bytes := []
  lz : Lazy := .unopened
  deriving Repr

structure Result where
  exit : Nat
  world : World
  stdout : Bytes
  deriving Repr

namespace Proc

def result (p : Proc) (code : Nat) : Result := ⟨code, p.w, p.emitted⟩

/-- `os.Stdout.Write(d)` -/
def writeStdout (p : Proc) (d : Bytes) : Proc × Bool :=
  match p.w.stdout with
  | .terminal => ({ p with emitted := p.emitted ++ d }, true)
  | .devFull => (p, false)
  | .limited cap =>
    let r := accept cap p.emitted.length d
    ({ p with emitted := p.emitted ++ r.1 }, r.2)

/-- `f.Write(d)` on the file opened at `t` (offset = current length) -/
def writeFile (p : Proc) (t : Path) (d : Bytes) : Proc × Bool :=
  match p.w.get t with
  | .file c m =>
    let r := accept p.w.fsize c.length d
    ({ p with w := p.w.set t (.file (c ++ r.1) m) }, r.2)
  | _ => (p, false)    -- /dev/full; (absent and dir cannot be open for writing)

/-- `out.Write(d)` -/
def write (dest : Dest) (p : Proc) (d : Bytes) : Proc × Bool :=
  match dest with
  | .stdout => p.writeStdout d
  | .buffered => ({ p with buf := p.buf ++ d }, true)
  | .lazy name =>
    match p.lz with
    | .failed => (p, false)
    | .opened t => p.writeFile t d
    | .unopened =>
      match create p.w name with
      | none => ({ p with lz := .failed }, false)
      | some (w', t) => ({ p with w := w', lz := .opened t } : Proc).writeFile t d

/-- `io.Copy` and the encrypting writers never issue empty writes -/
def writeNE (dest : Dest) (p : Proc) (d : Bytes) : Proc × Bool :=
  if d = [] then (p, true) else p.write dest d

/-- `main` returns normally: the deferred calls run -/
def finish (dest : Dest) (p : Proc) : Result :=
  match dest with
  | .stdout => p.result 0
  | .buffered => (p.writeStdout p.buf).1.result 0      -- io.Copy(os.Stdout, buf), error dropped
  | .lazy _ =>
    match p.lz with
    | .opened _ => p.result (if p.w.closeFails then 1 else 0)
    | _ => p.result 0

end Proc

/-! ## age: arguments, the flag switch -/

inductive ErrClass
  | usage | tooManyArgs
  | encDec | armorDec | passDec | recDec | recFileDec
  | idNoEncrypt | missingRecipients | passRec | passRecFile | passId
  | openInput | sameFile | binaryToTerminal
  | recipient | recipientsFile | identityFile | pluginName | stdinTwice | cannotRead | passphrase
  deriving DecidableEq, Repr

inductive IdKind | i | j
  deriving DecidableEq, Repr

/-- the values `flag.Parse` leaves behind -/
structure Args where
  noArgs : Bool := false           -- len(os.Args) == 1
  version : Bool := false
  decrypt : Bool := false
  encrypt : Bool := false
  armor : Bool := false
  passphrase : Bool := false
  output : Bytes := []             -- "" when -o is absent
  recipients : List Bytes := []
  recipientsFiles : List Bytes := []
  identities : List (IdKind × Bytes) := []
  positional : List Bytes := []    -- flag.Args()
  deriving Repr

/-- the `switch` in main: every branch is an `errorf`/`errorWithHint` -/
def flagCheck (a : Args) : Option ErrClass :=
  if a.decrypt then
    if a.encrypt then some .encDec
    else if a.armor then some .armorDec
    else if a.passphrase then some .passDec
    else if !a.recipients.isEmpty then some .recDec
    else if !a.recipientsFiles.isEmpty then some .recFileDec
    else none
  else
    if !a.identities.isEmpty && !a.encrypt then some .idNoEncrypt
    else if a.recipients.isEmpty && a.recipientsFiles.isEmpty && a.identities.isEmpty && !a.passphrase then
      some .missingRecipients
    else if !a.recipients.isEmpty && a.passphrase then some .passRec
    else if !a.recipientsFiles.isEmpty && a.passphrase then some .passRecFile
    else if !a.identities.isEmpty && a.passphrase then some .passId
    else none

/-- `flag.Arg(0)`: the empty string when there is no argument -/
def firstArg : List Bytes → Bytes
  | [] => []
  | x :: _ => x

def inputName (a : Args) : Bytes := firstArg a.positional

def isFileName (name : Bytes) : Bool := name ≠ [] && name ≠ dash

/-- the names whose files the run reads: `-i` values, `-R` values, the input -/
def inUseNames (a : Args) : List Bytes :=
  ((a.identities.filter (fun f => f.1 = .i)).map (·.2)) ++ a.recipientsFiles ++
    (if isFileName (inputName a) then [inputName a] else [])

def inUseFiles (a : Args) (cwd : Path) : List Path := (inUseNames a).map (absPath cwd)

/-- everything `main` decides before it dispatches: which error ends the run
    (nothing has been opened for writing yet), or what `out` is -/
def prepare (a : Args) (w : World) : Except ErrClass Dest :=
  if a.positional.length > 1 then .error .tooManyArgs
  else match flagCheck a with
  | some e => .error e
  | none =>
    if isFileName (inputName a) && openRead w (inputName a) = .fail then .error .openInput
    else if isFileName a.output then
      if absPath w.cwd a.output ∈ inUseFiles a w.cwd then .error .sameFile
      else .ok (.lazy a.output)
    else if w.stdout = .terminal then
      if a.output ≠ dash && !a.decrypt && !a.armor then .error .binaryToTerminal
      -- (`in == os.Stdin` no longer holds when decrypting from a terminal: `in` is then the
      --  buffered terminal input, so only encryption holds its output back)
      else if !isFileName (inputName a) && w.stdinTerminal && !a.decrypt then .ok .buffered
      else .ok .stdout
    else .ok .stdout

/-! ## age: the cryptographic work, as an oracle -/

inductive DecOutcome
  | headerRefused                                          -- age.Decrypt returns an error
  | ok (plaintext : Bytes) (payloadFailsAfter : Option Nat) -- a reader: all of `plaintext`, or a prefix then an error
  deriving DecidableEq, Repr

structure Oracle where
  recipientOK : Bytes → Bool         -- parseRecipient accepts this -r value
  recipientsFileOK : Bytes → Bool    -- what is read under this -R value parses
  identityFileOK : Bytes → Bool      -- what is read under this -i value parses
  pluginOK : Bytes → Bool            -- plugin.NewIdentityWithoutData accepts this -j value
  passphraseOK : Bool                -- the passphrase prompt (needs a terminal) and NewScryptRecipient succeed
  wrapOK : Bool                      -- age.Encrypt gets as far as writing the header
  dec : DecOutcome                   -- what age.Decrypt does with the input and the identities
  ct : Bytes                         -- everything a successful encryption writes (armored under -a)
  flushed : Bytes                    -- the part of `ct` that reaches `out` before the input is first read
  versionLine : Bytes                -- what -version prints

structure Oracle.WF (o : Oracle) : Prop where
  ct_ne : o.ct ≠ []
  flushed_prefix : o.flushed <+: o.ct

/-- what the dispatched function is going to do once parsing is over -/
inductive Plan
  | dec (oc : DecOutcome)
  | encFail                          -- age.Encrypt fails before it writes
  | encInputFail (flushed : Bytes)   -- the input cannot be read (it is a directory)
  | enc (ct : Bytes)
  deriving DecidableEq, Repr

/-- the complete result, if the operation is one that succeeds -/
def Plan.complete : Plan → Option Bytes
  | .dec (.ok pt none) => some pt
  | .enc ct => some ct
  | _ => none

/-- a `-R`/`-i` value is opened; `-` is standard input, usable once
    (`stdinInUse`); returns the new `stdinInUse` -/
def readNamed (w : World) (stdinUsed : Bool) (name : Bytes) : Except ErrClass Bool :=
  if name = dash then (if stdinUsed then .error .stdinTwice else .ok true)
  else if openRead w name = .ok then .ok stdinUsed else .error .cannotRead

def parseRecipients (o : Oracle) : List Bytes → Except ErrClass Unit
  | [] => .ok ()
  | r :: rs => if o.recipientOK r then parseRecipients o rs else .error .recipient

def parseRecFiles (w : World) (o : Oracle) : Bool → List Bytes → Except ErrClass Bool
  | u, [] => .ok u
  | u, f :: fs =>
    match readNamed w u f with
    | .error e => .error e
    | .ok u' => if o.recipientsFileOK f then parseRecFiles w o u' fs else .error .recipientsFile

def parseIds (w : World) (o : Oracle) : Bool → List (IdKind × Bytes) → Except ErrClass Bool
  | u, [] => .ok u
  | u, (.i, f) :: fs =>
    match readNamed w u f with
    | .error e => .error e
    | .ok u' => if o.identityFileOK f then parseIds w o u' fs else .error .identityFile
  | u, (.j, n) :: fs => if o.pluginOK n then parseIds w o u fs else .error .pluginName

/-- `age.Decrypt` on an input that cannot be read fails reading the header -/
def effDec (inputOK : Bool) (d : DecOutcome) : DecOutcome := if inputOK then d else .headerRefused

def encPlan (o : Oracle) (inputOK : Bool) : Plan :=
  if !o.wrapOK then .encFail else if !inputOK then .encInputFail o.flushed else .enc o.ct

/-- decryptPass / decryptNotPass / encryptPass / encryptNotPass up to the call
    of `decrypt` / `encrypt`: reads, never writes -/
def operation (a : Args) (w : World) (o : Oracle) : Except ErrClass Plan :=
  let stdinUsed := !isFileName (inputName a)
  let inputOK := !isFileName (inputName a) || openRead w (inputName a) = .ok
  if a.decrypt then
    match parseIds w o stdinUsed a.identities with
    | .error e => .error e
    | .ok _ => .ok (.dec (effDec inputOK o.dec))
  else if a.passphrase then
    if o.passphraseOK then .ok (encPlan o inputOK) else .error .passphrase
  else
    match parseRecipients o a.recipients with
    | .error e => .error e
    | .ok _ =>
      match parseRecFiles w o stdinUsed a.recipientsFiles with
      | .error e => .error e
      | .ok u =>
        match parseIds w o u a.identities with
        | .error e => .error e
        | .ok _ => .ok (encPlan o inputOK)

/-- `decrypt` / `encrypt` and the return from `main` -/
def execute (dest : Dest) (plan : Plan) (w : World) : Result :=
  let p0 : Proc := { w := w }
  match plan with
  | .dec .headerRefused => p0.result 1
  | .dec (.ok pt fa) =>
    let r1 := p0.write dest []                 -- out.Write(nil): triggers the lazyOpener
    if !r1.2 then r1.1.result 1 else
    let data := match fa with | none => pt | some n => pt.take n
    let r2 := r1.1.writeNE dest data           -- io.Copy(out, r)
    if !r2.2 then r2.1.result 1 else
    if fa.isSome then r2.1.result 1 else
    r2.1.finish dest
  | .encFail => p0.result 1
  | .encInputFail fl => (p0.writeNE dest fl).1.result 1
  | .enc ct =>
    let r := p0.writeNE dest ct                -- header, payload, armor close
    if !r.2 then r.1.result 1 else r.1.finish dest

/-- `printVersion`: `fmt.Println(v)` to standard output; `errorf` (exit 1) if the write fails -/
def printVersion (w : World) (line : Bytes) : Result :=
  let r := ({ w := w } : Proc).writeStdout line
  r.1.result (if r.2 then 0 else 1)

def run (a : Args) (w : World) (o : Oracle) : Result :=
  if a.noArgs then ⟨1, w, []⟩
  else if a.version then printVersion w o.versionLine
  else
    match prepare a w with
    | .error _ => ⟨1, w, []⟩
    | .ok dest =>
      match operation a w o with
      | .error _ => ⟨1, w, []⟩
      | .ok plan => execute dest plan w

/-! ## Vocabulary of the C15 statements -/

/-- the complete result `result` is what the output now holds -/
def Holds (dest : Dest) (w : World) (r : Result) (result : Bytes) : Prop :=
  match dest with
  | .stdout => r.stdout = result ∧ w.stdout ≠ .devFull     -- (a device that rejects every write holds nothing)
  | .buffered => r.stdout = result
  | .lazy name => w.closeFails = false ∧ ∃ t m, resolve w name = some t ∧ r.world.get t = .file result m

/-- the output cannot be created, or cannot take all of `result` -/
inductive OutputFails (w : World) (result : Bytes) : Dest → Prop
  | stdoutFull : w.stdout = .devFull → OutputFails w result .stdout
  | stdoutCap (c : Nat) : w.stdout = .limited (some c) → c < result.length → OutputFails w result .stdout
  | create (name : Bytes) : create w name = none → OutputFails w result (.lazy name)
  | fileFull (name : Bytes) (t : Path) : resolve w name = some t → w.get t = .devFull → OutputFails w result (.lazy name)
  | fileCap (name : Bytes) (l : Nat) : w.fsize = some l → l < result.length → OutputFails w result (.lazy name)
  | close (name : Bytes) : w.closeFails = true → OutputFails w result (.lazy name)

/-! ## age-keygen -/

structure KArgs where
  version : Bool := false
  convert : Bool := false          -- -y
  output : Bytes := []
  positional : List Bytes := []
  deriving Repr

structure KOracle where
  keyFile : Bytes                  -- the three lines `generate` prints
  /-- `-y`: `none` if the input does not parse or holds no identity, else the
      recipient lines (each with its newline) -/
  converted : Option (List Bytes)
  versionLine : Bytes

structure KOracle.WF (o : KOracle) : Prop where
  key_ne : o.keyFile ≠ []
  lines_ne : ∀ ls, o.converted = some ls → ls ≠ [] ∧ ∀ l ∈ ls, l ≠ []

inductive KDest
  | stdout
  | file (t : Path)
  deriving DecidableEq, Repr

def kwrite (dest : KDest) (p : Proc) (d : Bytes) : Proc × Bool :=
  match dest with
  | .stdout => p.writeStdout d
  | .file t => p.writeFile t d

/-- `convert`'s loop: one Fprintf per identity, stop at the first error -/
def kwriteLines (dest : KDest) : Proc → List Bytes → Proc × Bool
  | p, [] => (p, true)
  | p, l :: ls =>
    let r := kwrite dest p l
    if r.2 then kwriteLines dest r.1 ls else (r.1, false)

def kfinish (dest : KDest) (p : Proc) : Result :=
  match dest with
  | .stdout => p.result 0
  | .file _ => p.result (if p.w.closeFails then 1 else 0)

/-- the input is opened (after the output), and what is going to be written is
    determined: `none` = the run ends with an error before it writes. In -y
    mode a directory opens but cannot be parsed. `w1` is the world after the
    output has been opened. -/
def koperation (a : KArgs) (w1 : World) (o : KOracle) : Option (List Bytes) :=
  let name := firstArg a.positional
  if isFileName name && openRead w1 name = .fail then none
  else if a.convert then
    if !isFileName name || openRead w1 name = .ok then o.converted else none
  else some [o.keyFile]           -- `generate`: one Fprintf of the three lines

def kargsValid (a : KArgs) : Bool :=
  !(!a.positional.isEmpty && !a.convert) && !(a.positional.length > 1 && a.convert)

def krun (a : KArgs) (w : World) (o : KOracle) : Result :=
  if !kargsValid a then ⟨1, w, []⟩
  else if a.version then printVersion w o.versionLine
  else
    -- the output is opened first
    let opened : Option (World × KDest) :=
      if a.output = [] then some (w, .stdout)
      else match createExcl w a.output with
        | none => none
        | some (w', t) => some (w', .file t)
    match opened with
    | none => ⟨1, w, []⟩
    | some (w1, dest) =>
      let p : Proc := { w := w1 }
      match koperation a w1 o with
      | none => p.result 1
      | some segs =>
        let r := kwriteLines dest p segs
        if r.2 then kfinish dest r.1 else r.1.result 1

/-- the complete result has reached the output of an age-keygen run: standard
    output, or a file that did not exist before, now with mode `0600 &^ umask` -/
def KHolds (a : KArgs) (w : World) (r : Result) (result : Bytes) : Prop :=
  if a.output = [] then r.stdout = result ∧ w.stdout ≠ .devFull
  else w.closeFails = false ∧ ∃ t, resolve w a.output = some t ∧ w.get t = .absent ∧
    r.world.get t = .file result (applyUmask 0o600 w.umask)

/-- the world in which age-keygen opens its input: the output file exists by then -/
def kworld1 (a : KArgs) (w : World) : World :=
  if a.output = [] then w
  else match createExcl w a.output with
    | none => w
    | some (w', _) => w'

end Cli
end AgeModel
