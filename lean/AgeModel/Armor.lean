/-
  AgeModel.Armor — the ASCII armor of age (armor/armor.go, with the three `fix:`
  commits: BEGIN line on an empty Close, empty body lines rejected, stray CR rejected).

  Spec layer : `armor b`, the one canonical text for bytes `b`.
  Impl layer : `AWriter` (armoredWriter + WrappedBase64Encoder + encoding/base64's
               streaming encoder, with destination faults) and `AReader`
               (armoredReader: per-line refill, sticky error, whitespace budgets),
               plus `read`, the whole-text reading function the reader machine refines.
  `W` is maxWhitespace (1024 in the code: a model parameter).
-/
import AgeModel.Format
import AgeModel.Stream
import AgeModel.File
namespace AgeModel
namespace Armor
open Format (nl cr sp)

/-- `"-----BEGIN AGE ENCRYPTED FILE-----"` -/
def header : Bytes := [45, 45, 45, 45, 45, 66, 69, 71, 73, 78, 32, 65, 71, 69, 32, 69, 78, 67, 82, 89, 80, 84, 69, 68, 32, 70, 73, 76, 69, 45, 45, 45, 45, 45]
/-- `"-----END AGE ENCRYPTED FILE-----"` -/
def footer : Bytes := [45, 45, 45, 45, 45, 69, 78, 68, 32, 65, 71, 69, 32, 69, 78, 67, 82, 89, 80, 84, 69, 68, 32, 70, 73, 76, 69, 45, 45, 45, 45, 45]

/-! ### Spec layer -/

/-- the canonical armor of `b`: BEGIN line, standard base64 in 64-column lines,
    END line; the last body line is shorter than 64 columns and is omitted when empty -/
def armor (b : Bytes) : Bytes :=
  header ++ [nl] ++ Format.wrap (B64.encStd b) ++
    (if (B64.encStd b).length % 64 = 0 then [] else [nl]) ++ footer ++ [nl]

/-! ### writer -/

/-- `writeWrapped`: copy `cs`, inserting a newline whenever the running column
    count reaches a multiple of 64 -/
def wrapCols : Nat → Bytes → Bytes × Nat
  | w, [] => ([], w)
  | w, c :: cs =>
    let (r, w') := wrapCols (w + 1) cs
    if (w + 1) % 64 = 0 then (c :: nl :: r, w') else (c :: r, w')

structure AWriter (S : Stream.DstSpec) where
  started : Bool
  closed : Bool
  pending : Bytes       -- the 0..2 bytes held by base64's streaming encoder
  written : Nat         -- WrappedBase64Encoder.written
  encErr : Bool         -- sticky error of the base64 encoder
  dst : Stream.Dst S

def AWriter.new {S : Stream.DstSpec} (d : Stream.Dst S) : AWriter S :=
  { started := false, closed := false, pending := [], written := 0, encErr := false, dst := d }

inductive WErr | dst | closed
deriving DecidableEq, Repr

/-- write the BEGIN line if it has not been written yet -/
def AWriter.ensureHeader {S : Stream.DstSpec} (a : AWriter S) : AWriter S × Bool :=
  if a.started then (a, true)
  else match a.dst.write (header ++ [nl]) with
    | (d', true) => ({ a with dst := d', started := true }, true)
    | (d', false) => ({ a with dst := d' }, false)

/-- `writeWrapped` for the characters `cs`, the resulting bytes split into
    destination writes according to `segs`; a failure sets the encoder's sticky error -/
def AWriter.emit {S : Stream.DstSpec} (a : AWriter S) (cs : Bytes) (segs : List Nat) : AWriter S × Bool :=
  match writeAll a.dst (segmentBy segs (wrapCols a.written cs).1) with
  | (d', true) => ({ a with dst := d', written := (wrapCols a.written cs).2 }, true)
  | (d', false) => ({ a with dst := d', encErr := true }, false)

/-- `Write(p)`. `segs` is how the bytes this call emits happen to be split into
    destination writes (stdlib buffering); theorems hold for every split. -/
def AWriter.write {S : Stream.DstSpec} (a : AWriter S) (p : Bytes) (segs : List Nat) : AWriter S × Option WErr :=
  match a.ensureHeader with
  | (a1, false) => (a1, some .dst)
  | (a1, true) =>
    if a1.encErr then (a1, some .dst)
    else
      -- base64's streaming encoder: all complete 3-byte groups are encoded and passed on
      match a1.emit (B64.encStd ((a1.pending ++ p).take ((a1.pending ++ p).length / 3 * 3))) segs with
      | (a2, true) => ({ a2 with pending := (a1.pending ++ p).drop ((a1.pending ++ p).length / 3 * 3) }, none)
      | (a2, false) => (a2, some .dst)

/-- the END line, preceded by a newline unless the last body line is empty -/
def AWriter.writeFooter {S : Stream.DstSpec} (a : AWriter S) : AWriter S × Bool :=
  match a.dst.write ((if a.written % 64 = 0 then [] else [nl]) ++ footer ++ [nl]) with
  | (d', ok) => ({ a with dst := d' }, ok)

/-- `Close()` -/
def AWriter.close {S : Stream.DstSpec} (a : AWriter S) : AWriter S × Option WErr :=
  if a.closed then (a, some .closed)
  else
    match ({ a with closed := true } : AWriter S).ensureHeader with
    | (a1, false) => (a1, some .dst)
    | (a1, true) =>
      if a1.encErr then (a1, some .dst)
      else
        -- flush the held bytes (with padding), in one destination write
        match (if a1.pending.isEmpty then (a1, true) else a1.emit (B64.encStd a1.pending) []) with
        | (a2, false) => (a2, some .dst)
        | (a2, true) =>
          match ({ a2 with pending := [] } : AWriter S).writeFooter with
          | (a3, true) => (a3, none)
          | (a3, false) => (a3, some .dst)

inductive AOp
  | write (p : Bytes) (segs : List Nat)
  | close

def AWriter.step {S : Stream.DstSpec} (a : AWriter S) : AOp → AWriter S × Option WErr
  | .write p segs => a.write p segs
  | .close => a.close

def AWriter.run {S : Stream.DstSpec} (a : AWriter S) : List AOp → AWriter S × List (Option WErr)
  | [] => (a, [])
  | op :: ops =>
    let (a1, r) := a.step op
    let (a2, rs) := a1.run ops
    (a2, r :: rs)

/-! ### reader -/

/-- `len(bytes.TrimSpace(b)) == 0`: every rune, decoded left to right, is a
    Unicode White_Space rune (ASCII \t \n \v \f \r SP; U+0085, U+00A0, U+1680,
    U+2000–U+200A, U+2028, U+2029, U+202F, U+205F, U+3000); an invalid byte is not -/
def allSpace : Bytes → Bool
  | [] => true
  | 0xE1 :: 0x9A :: 0x80 :: r => allSpace r
  | 0xE2 :: 0x80 :: c :: r =>
    if (0x80 ≤ c.toNat ∧ c.toNat ≤ 0x8A) ∨ c = 0xA8 ∨ c = 0xA9 ∨ c = 0xAF then allSpace r else false
  | 0xE2 :: 0x81 :: 0x9F :: r => allSpace r
  | 0xE3 :: 0x80 :: 0x80 :: r => allSpace r
  | 0xC2 :: c :: r => if c = 0x85 ∨ c = 0xA0 then allSpace r else false
  | c :: r => if c = 9 ∨ c = 10 ∨ c = 11 ∨ c = 12 ∨ c = 13 ∨ c = 32 then allSpace r else false

/-- drop one trailing CR -/
def trimCR (l : Bytes) : Bytes :=
  match l.getLast? with
  | some c => if c = cr then l.dropLast else l
  | none => l

/-- `getLine`: the next line without its LF and without one CR before it, and the
    rest of the text. `none`: unexpected end (no data left), or the source failed
    (`fail`) before the line was terminated. A last line without LF is a line. -/
def getLine (fail : Bool) (t : Bytes) : Option (Bytes × Bytes) :=
  match t with
  | [] => none
  | _ =>
    match Format.takeLine t with
    | some (l, r) => some (trimCR l, r)
    | none => if fail then none else some (trimCR t, [])

/-- `drainTrailing`: at most `W-1` bytes of whitespace may follow the END line -/
def drainOK (W : Nat) (fail : Bool) (rest : Bytes) : Bool :=
  let buf := rest.take W
  -- a failing source makes io.ReadAll fail unless the limit is hit first
  if fail ∧ rest.length < W then false
  else allSpace buf ∧ buf.length ≠ W

inductive AOut | eof | err
deriving DecidableEq, Repr

/-- skip whitespace-only lines (budget `W` bytes including their line ends), then
    expect the BEGIN line; returns the text after it -/
def readLeading (W : Nat) (fail : Bool) (fuel : Nat) (t : Bytes) (removed : Nat) : Option Bytes :=
  match fuel with
  | 0 => none
  | fuel+1 =>
    match getLine fail t with
    | none => none
    | some (line, rest) =>
      if allSpace line then
        if removed + line.length + 1 > W then none
        else readLeading W fail fuel rest (removed + line.length + 1)
      else if line = header then some rest
      else none

/-- outcome of decoding one body line: the bytes, and whether more lines may follow -/
inductive LineRes
  | footer                 -- the END line
  | data (b : Bytes)       -- a body line
  | bad
deriving DecidableEq, Repr

def classifyLine (line : Bytes) : LineRes :=
  if line = footer then .footer
  else if line.length > 64 then .bad
  else if line.length = 0 then .bad
  else if line.any (fun c => c = cr || c = nl) then .bad
  else match B64.decStd line with
    | some b => .data b
    | none => .bad

/-- the body: lines of 48 bytes, then a shorter line (or none) and the END line -/
def readBody (W : Nat) (fail : Bool) (fuel : Nat) (t : Bytes) : Bytes × AOut :=
  match fuel with
  | 0 => ([], .err)
  | fuel+1 =>
    match getLine fail t with
    | none => ([], .err)
    | some (line, rest) =>
      match classifyLine line with
      | .bad => ([], .err)
      | .footer => ([], if drainOK W fail rest then .eof else .err)
      | .data b =>
        if b.length < 48 then
          match getLine fail rest with
          | none => ([], .err)        -- nothing of this line is released: Read returns the error
          | some (l2, rest2) =>
            if l2 = footer then (b, if drainOK W fail rest2 then .eof else .err)
            else ([], .err)
        else
          let r := readBody W fail fuel rest
          (b ++ r.1, r.2)

/-- de-armoring a whole text: bytes released and terminal condition -/
def read (W : Nat) (fail : Bool) (t : Bytes) : Bytes × AOut :=
  match readLeading W fail (t.length + 1) t 0 with
  | none => ([], .err)
  | some rest => readBody W fail (rest.length + 1) rest

end Armor
end AgeModel

namespace AgeModel
namespace Armor
open Format (nl cr sp)

/-! ### reader machine (per `Read` call) -/

structure AReader where
  started : Bool
  unread : Bytes
  err : Option AOut
  rest : Bytes         -- text not yet consumed
  removed : Nat        -- leading whitespace budget used (local to one Read in Go; re-zeroed per call, see `read1`)
deriving Repr

def AReader.new (t : Bytes) : AReader := { started := false, unread := [], err := none, rest := t, removed := 0 }

/-- `Read(p)` with `len(p) = n`: new state, bytes copied, reported error. Mirrors the Go
    function: buffered bytes first; then the sticky error; then (once) the leading
    whitespace and BEGIN line; then exactly one body line. -/
def AReader.read1 (W : Nat) (fail : Bool) (r : AReader) (n : Nat) : AReader × Bytes × Option AOut :=
  if r.unread.length > 0 then ({ r with unread := r.unread.drop n }, r.unread.take n, none)
  else match r.err with
    | some e => (r, [], some e)
    | none =>
      -- leading part (the budget counter is a local variable of Read: starts at 0 in each call)
      let lead : Option Bytes :=
        if r.started then some r.rest else readLeading W fail (r.rest.length + 1) r.rest 0
      match lead with
      | none => ({ r with err := some .err }, [], some .err)
      | some rest =>
        let r := { r with started := true, rest := rest }
        match getLine fail rest with
        | none => ({ r with err := some .err }, [], some .err)
        | some (line, rest1) =>
          match classifyLine line with
          | .bad => ({ r with rest := rest1, err := some .err }, [], some .err)
          | .footer =>
            let e := if drainOK W fail rest1 then AOut.eof else AOut.err
            ({ r with rest := [], err := some e }, [], some e)
          | .data b =>
            if b.length < 48 then
              match getLine fail rest1 with
              | none => ({ r with rest := [], err := some .err }, [], some .err)
              | some (l2, rest2) =>
                if l2 = footer then
                  let e := if drainOK W fail rest2 then AOut.eof else AOut.err
                  ({ r with rest := [], err := some e, unread := b.drop n }, b.take n, none)
                else ({ r with rest := rest2, err := some .err }, [], some .err)
            else ({ r with rest := rest1, unread := b.drop n }, b.take n, none)

/-- run a list of `Read` sizes, collecting bytes until the first reported error -/
def AReader.drain (W : Nat) (fail : Bool) (r : AReader) : List Nat → AReader × Bytes × Option AOut
  | [] => (r, [], none)
  | n :: ns =>
    match r.read1 W fail n with
    | (r1, out, some e) => (r1, out, some e)
    | (r1, out, none) =>
      let (r2, out2, e) := r1.drain W fail ns
      (r2, out ++ out2, e)

def AReader.trace (W : Nat) (fail : Bool) (r : AReader) : List Nat → List (Bytes × Option AOut)
  | [] => []
  | n :: ns =>
    let (r1, out, e) := r.read1 W fail n
    (out, e) :: r1.trace W fail ns

end Armor
end AgeModel
