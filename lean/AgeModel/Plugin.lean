/-
  AgeModel.Plugin — the plugin *client* of age (plugin/client.go):
  `Recipient.WrapWithLabels`, `Identity.Unwrap`, `ClientUI.handle`.

  A conversation is what the plugin sends AFTER stanza framing: the list of
  stanzas `ReadStanza` returns one after the other, followed by an end marker
  (`End.eof`: the stream ends, possibly in the middle of a stanza;
  `End.malformed`: the next thing is not a well-formed stanza). In both cases
  `ReadStanza` returns an error and the client loop returns that error.
  Byte-level stanza parsing and marshalling are the Format area (C07).

  Strings: `ReadStanza` only returns types and arguments that are non-empty
  strings of bytes 33..126, so `String` represents them faithfully; bodies,
  prompts and the plugin's error text are arbitrary bytes (`Bytes`).

  User interface: three optional callbacks over an arbitrary UI state `σ`
  (a callback may answer differently each time it is called). `WaitTimer` runs
  in its own goroutine and has no influence on replies or result: not modelled.

  Writes to the plugin can fail only when the plugin has closed its stdin or
  exited; every such failure makes the Go function return that error at once.
  This model IGNORES write failures (the plugin is assumed to keep reading).

  Both read loops have the same shape (read a stanza; switch on its type; either
  write exactly one reply and continue, or return), so they are written as one
  generic `run` over a machine-specific `step` function; the two `step`
  functions mirror the two Go `switch` statements branch by branch.
-/
import AgeModel.Basic
namespace AgeModel
namespace Plugin

structure Stanza where
  type : String
  args : List String
  body : Bytes
deriving DecidableEq, Repr, Inhabited

/-- how the plugin's output ends after the last complete stanza -/
inductive End
  | eof        -- end of stream (also: in the middle of a stanza): the error wraps io.EOF
  | malformed  -- a complete line that is not a stanza / a malformed body line
deriving DecidableEq, Repr, Inhabited

inductive ClientErr
  | incorrectIdentity            -- age.ErrIncorrectIdentity
  | pluginError (text : Bytes)   -- the plugin sent `error`; carries its body
  | protocol                     -- malformed / duplicate / bad index / bad argument count
  | ended (e : End)              -- ReadStanza failed
  | noStanzas                    -- "received zero recipient stanzas"
deriving DecidableEq, Repr, Inhabited

deriving instance DecidableEq for Except

/-- the errors that do NOT come from a clean `done` -/
def ClientErr.hard : ClientErr → Prop
  | .pluginError _ => True
  | .protocol => True
  | .ended _ => True
  | .incorrectIdentity => False
  | .noStanzas => False

/-! ## strconv.Atoi (as far as the clients use it: 64-bit int) -/

def digitsVal : List Char → Nat → Option Nat
  | [], acc => some acc
  | c :: cs, acc => if c.isDigit then digitsVal cs (acc * 10 + (c.toNat - 48)) else none

/-- optional single sign, at least one decimal digit, nothing else; the value
    must fit an int64 -/
def atoiChars (cs : List Char) : Option Int :=
  let neg := match cs with | '-' :: _ => true | _ => false
  let ds := match cs with | '+' :: r => r | '-' :: r => r | _ => cs
  match ds with
  | [] => none
  | _ =>
    match digitsVal ds 0 with
    | none => none
    | some v =>
      if neg then (if v ≤ 2 ^ 63 then some (- (v : Int)) else none)
      else (if v < 2 ^ 63 then some (v : Int) else none)

def atoi (s : String) : Option Int := atoiChars s.toList

/-! ## the stanzas the client writes -/

def okS : Stanza := ⟨"ok", [], []⟩
def failS : Stanza := ⟨"fail", [], []⟩
def unsupportedS : Stanza := ⟨"unsupported", [], []⟩
def doneS : Stanza := ⟨"done", [], []⟩
def okBody (v : Bytes) : Stanza := ⟨"ok", [], v⟩
def okChoice (yes : Bool) : Stanza := ⟨"ok", [if yes then "yes" else "no"], []⟩

/-! ## ClientUI -/

/-- `none` = the callback field is nil. A callback returns the new UI state
    and its answer; `false` / `none` answers are "returned a non-nil error". -/
structure UI (σ : Type) where
  display : Option (σ → Bytes → σ × Bool)
  request : Option (σ → Bytes → Bool → σ × Option Bytes)          -- prompt, secret?
  confirm : Option (σ → Bytes → Bytes → Bytes → σ × Option Bool)  -- prompt, yes, no ↦ chose yes?

inductive Handled (σ : Type)
  | reply (st : σ) (r : Stanza)   -- (true, nil) after writing `r`
  | fatal                         -- (true, err)
  | unknown                       -- (false, nil)

/-- `ClientUI.handle`. `dec` is `format.DecodeString` (strict raw base64, no CR/LF). -/
def UI.handle {σ : Type} (ui : UI σ) (dec : String → Option Bytes) (st : σ) (s : Stanza) : Handled σ :=
  if s.type = "msg" then
    match ui.display with
    | none => .reply st failS
    | some f =>
      let r := f st s.body
      .reply r.1 (if r.2 then okS else failS)
  else if s.type = "request-secret" ∨ s.type = "request-public" then
    match ui.request with
    | none => .reply st failS
    | some f =>
      let r := f st s.body (decide (s.type = "request-secret"))
      match r.2 with
      | none => .reply r.1 failS
      | some v => .reply r.1 (okBody v)
  else if s.type = "confirm" then
    if s.args.length ≠ 1 ∧ s.args.length ≠ 2 then .fatal
    else
      match ui.confirm with
      | none => .reply st failS
      | some f =>
        match s.args with
        | [y] =>
          match dec y with
          | none => .fatal
          | some yes =>
            let r := f st s.body yes []
            match r.2 with
            | none => .reply r.1 failS
            | some c => .reply r.1 (okChoice c)
        | [y, n] =>
          match dec y with
          | none => .fatal
          | some yes =>
            match dec n with
            | none => .fatal
            | some no =>
              let r := f st s.body yes no
              match r.2 with
              | none => .reply r.1 failS
              | some c => .reply r.1 (okChoice c)
        | _ => .fatal
  else .unknown

/-! ## the generic read loop -/

/-- one iteration of a read loop: continue after writing exactly one reply,
    or return after writing `replies` -/
inductive Step (S α : Type)
  | next (s : S) (reply : Stanza)
  | halt (replies : List Stanza) (res : Except ClientErr α)

structure Trace (S α : Type) where
  state : S
  replies : List Stanza
  result : Except ClientErr α

/-- `for { s, err := readStanza(); if err != nil { return err }; switch … }` -/
def run {S α : Type} (step : S → Stanza → Step S α) (s : S) : List Stanza → End → Trace S α
  | [], e => ⟨s, [], .error (.ended e)⟩
  | m :: rest, e =>
    match step s m with
    | .next s' r =>
      let t := run step s' rest e
      ⟨t.state, r :: t.replies, t.result⟩
    | .halt rs res => ⟨s, rs, res⟩

/-! ## Recipient.WrapWithLabels -/

structure RState (σ : Type) where
  ui : σ
  stanzas : List Stanza               -- `stanzas`
  labels : Option (List String)       -- `labels`; `none` = nil. ReadStanza's `Args` is never nil
                                      -- (`args[1:]` of a non-empty slice), so after a first
                                      -- `labels` stanza — even one without arguments — it is `some`.

abbrev RResult := List Stanza × Option (List String)

def recipientStep {σ : Type} (ui : UI σ) (dec : String → Option Bytes) (s : RState σ) (m : Stanza) :
    Step (RState σ) RResult :=
  if m.type = "recipient-stanza" then
    match m.args with
    | idx :: ty :: as =>
      match atoi idx with
      | none => .halt [] (.error .protocol)
      | some n =>
        if n ≠ 0 then .halt [] (.error .protocol)
        else .next { s with stanzas := s.stanzas ++ [⟨ty, as, m.body⟩] } okS
    | _ => .halt [] (.error .protocol)
  else if m.type = "labels" then
    match s.labels with
    | some _ => .halt [] (.error .protocol)
    | none => .next { s with labels := some m.args } okS
  else if m.type = "error" then .halt [okS] (.error (.pluginError m.body))
  else if m.type = "done" then
    .halt [] (if s.stanzas = [] then .error .noStanzas else .ok (s.stanzas, s.labels))
  else
    match ui.handle dec s.ui m with
    | .reply st r => .next { s with ui := st } r
    | .fatal => .halt [] (.error .protocol)
    | .unknown => .next s unsupportedS

/-! ## Identity.Unwrap -/

structure IState (σ : Type) where
  ui : σ
  got : Bool          -- `gotFileKey`
  fileKey : Bytes     -- `fileKey`; a Go body is nil exactly when it is empty

def identityStep {σ : Type} (ui : UI σ) (dec : String → Option Bytes) (s : IState σ) (m : Stanza) :
    Step (IState σ) Bytes :=
  if m.type = "file-key" then
    match m.args with
    | [idx] =>
      match atoi idx with
      | none => .halt [] (.error .protocol)
      | some n =>
        if n ≠ 0 then .halt [] (.error .protocol)
        else if s.got then .halt [] (.error .protocol)
        else .next { s with got := true, fileKey := m.body } okS
    | _ => .halt [] (.error .protocol)
  else if m.type = "error" then .halt [okS] (.error (.pluginError m.body))
  else if m.type = "done" then
    .halt [] (if s.fileKey = [] then .error .incorrectIdentity else .ok s.fileKey)
  else
    match ui.handle dec s.ui m with
    | .reply st r => .next { s with ui := st } r
    | .fatal => .halt [] (.error .protocol)
    | .unknown => .next s unsupportedS

/-! ## vocabulary for the properties -/

/-- the commands `ClientUI.handle` knows -/
def uiCommands : List String := ["msg", "request-secret", "request-public", "confirm"]

/-- the commands the recipient / identity state machine knows; every other
    stanza type is an unknown command for that machine -/
def recipientCommands : List String := ["recipient-stanza", "labels", "error", "done"] ++ uiCommands
def identityCommands : List String := ["file-key", "error", "done"] ++ uiCommands

/-- the result is an error that does not come from a clean `done`: the plugin's
    own error text, a protocol violation, or the stream ending / being malformed —
    never a success, never "incorrect identity", never "no stanzas" -/
def Hard {α : Type} (res : Except ClientErr α) : Prop := ∃ err, res = .error err ∧ err.hard

/-- types that neither machine treats specially and that `ClientUI.handle`
    cannot reject: prompts for a message or a value, and commands unknown to both -/
def harmless (t : String) : Prop :=
  t ∉ ["recipient-stanza", "labels", "file-key", "error", "done", "confirm"]

/-- the messages the client reads before the first `done` -/
def beforeDone (msgs : List Stanza) : List Stanza := msgs.takeWhile (fun m => m.type != "done")

/-- the age stanza a `recipient-stanza <index> <type> <args…>` message carries -/
def asWrapped (m : Stanza) : Option Stanza :=
  if m.type = "recipient-stanza" then
    match m.args with
    | _ :: ty :: as => some ⟨ty, as, m.body⟩
    | _ => none
  else none

/-- what a successful wrap returns: the stanzas carried by the `recipient-stanza`
    messages before `done`, in order, and the arguments of the `labels` message -/
def wrappedOf (msgs : List Stanza) : List Stanza := (beforeDone msgs).filterMap asWrapped
def labelsOf (msgs : List Stanza) : Option (List String) :=
  ((beforeDone msgs).find? (fun m => m.type == "labels")).map (·.args)

/-- what a successful unwrap returns: the body of the `file-key` message before `done` -/
def fileKeyOf (msgs : List Stanza) : Option Bytes :=
  ((beforeDone msgs).find? (fun m => m.type == "file-key")).map (·.body)

/-! ## the two clients -/

/-- what a call of the client exchanged and returned -/
structure Outcome (σ α : Type) where
  phase1 : List Stanza              -- what the client writes before reading anything
  replies : List Stanza             -- what it writes in phase 2, in order
  result : Except ClientErr α
  ui : σ                            -- the UI state when the call returns

structure Conv where
  msgs : List Stanza
  fin : End

def recipientPhase1 (identityMode : Bool) (encoding : String) (fileKey : Bytes) (grease : String) : List Stanza :=
  [⟨if identityMode then "add-identity" else "add-recipient", [encoding], []⟩,
   ⟨grease, [], []⟩,
   ⟨"wrap-file-key", [], fileKey⟩,
   ⟨"extension-labels", [], []⟩,
   doneS]

def identityPhase1 (encoding : String) (stanzas : List Stanza) (grease : String) : List Stanza :=
  ⟨"add-identity", [encoding], []⟩ :: ⟨grease, [], []⟩ ::
    (stanzas.map (fun rs => (⟨"recipient-stanza", "0" :: rs.type :: rs.args, rs.body⟩ : Stanza)) ++ [doneS])

def recipientClient {σ : Type} (ui : UI σ) (dec : String → Option Bytes) (st : σ)
    (identityMode : Bool) (encoding : String) (fileKey : Bytes) (grease : String) (c : Conv) :
    Outcome σ RResult :=
  let t := run (recipientStep ui dec) ⟨st, [], none⟩ c.msgs c.fin
  ⟨recipientPhase1 identityMode encoding fileKey grease, t.replies, t.result, t.state.ui⟩

def identityClient {σ : Type} (ui : UI σ) (dec : String → Option Bytes) (st : σ)
    (encoding : String) (stanzas : List Stanza) (grease : String) (c : Conv) :
    Outcome σ Bytes :=
  let t := run (identityStep ui dec) ⟨st, false, []⟩ c.msgs c.fin
  ⟨identityPhase1 encoding stanzas grease, t.replies, t.result, t.state.ui⟩

end Plugin
end AgeModel
