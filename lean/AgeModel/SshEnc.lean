/-
  AgeModel.SshEnc — agessh.EncryptedSSHIdentity (/repo/agessh/encrypted_keys.go):
  a passphrase-protected SSH private key used as an age identity.

  The identity value holds the declared public key (its SSH type string and
  the 4-byte tag `sshFingerprint`), the PEM bytes, the passphrase callback and
  one mutable field `decrypted` (the plain identity, once unlocked). The model
  keeps what `Unwrap` observes:

    * state      `cached : Option KeyId` — `i.decrypted` (which key pair it holds);
    * key file   `openFile : Passphrase → Option Opened` — what
                 `ssh.ParseRawPrivateKeyWithPassphrase(pemBytes, p)` yields
                 (`none` = error: wrong passphrase, damaged file);
    * callback   one scripted answer per call, `none` = the callback fails; it is
                 consulted only if `Unwrap` asks;
    * the plain identity `inner k` (Ed25519Identity / RSAIdentity for key `k`) is a
                 parameter: `innerUnwrap : KeyId → List Stanza → R`.

  `step` mirrors `Unwrap` statement by statement. Core Lean only.
-/
import AgeModel.Basic
namespace AgeModel
namespace SshEnc

abbrev KeyId := Nat
abbrev Passphrase := Bytes

/-- a recipient stanza of the file header -/
structure Stanza where
  type : Bytes
  args : List Bytes
  body : Bytes
deriving DecidableEq, Repr

/-- what parsing the key file with a passphrase gives -/
inductive Opened where
  /-- an Ed25519 or RSA private key, belonging to key pair `k` -/
  | key (k : KeyId)
  /-- some other kind of key ("unexpected SSH key type") -/
  | otherType
  /-- `NewEd25519Identity`/`NewRSAIdentity` refused it ("invalid SSH key") -/
  | invalidKey
deriving DecidableEq, Repr

structure Config (R : Type) where
  /-- `i.pubKey.Type()` -/
  keyType : Bytes
  /-- `sshFingerprint(i.pubKey)` -/
  tag : Bytes
  /-- the key pair of the declared public key -/
  declared : KeyId
  openFile : Passphrase → Option Opened
  innerUnwrap : KeyId → List Stanza → R

structure State where
  cached : Option KeyId
deriving DecidableEq, Repr

def fresh : State := ⟨none⟩

inductive Result (R : Type) where
  /-- `i.decrypted.Unwrap(stanzas)` -/
  | delegated (r : R)
  /-- `age.ErrIncorrectIdentity` -/
  | incorrectIdentity
  /-- "invalid <type> recipient block" -/
  | errMalformed
  /-- "failed to obtain passphrase" -/
  | errCallback
  /-- "failed to decrypt SSH key file" -/
  | errDecryptKey
  /-- "unexpected SSH key type" -/
  | errUnexpectedType
  /-- "invalid SSH key" -/
  | errInvalidKey
  /-- "mismatched private and public SSH key" -/
  | errMismatch
deriving DecidableEq, Repr

structure Out (R : Type) where
  prompted : Bool
  result : Result R

inductive ScanRes where
  | matched | noMatch | malformed
deriving DecidableEq, Repr

/-- the `for _, s := range stanzas` loop: other types are passed over; a stanza
    of the declared type without arguments is an error on the spot; another
    tag is passed over; the first stanza with the tag ends the loop -/
def scanStanzas {R : Type} (cfg : Config R) : List Stanza → ScanRes
  | [] => .noMatch
  | s :: ss =>
    if s.type ≠ cfg.keyType then scanStanzas cfg ss
    else match s.args with
      | [] => .malformed
      | a :: _ => if a ≠ cfg.tag then scanStanzas cfg ss else .matched

/-- one `Unwrap(stanzas)` call; `ans` is what the callback would answer -/
def step {R : Type} (cfg : Config R) (st : State) (stanzas : List Stanza) (ans : Option Passphrase) :
    State × Out R :=
  match st.cached with
  | some k => (st, ⟨false, .delegated (cfg.innerUnwrap k stanzas)⟩)
  | none =>
    match scanStanzas cfg stanzas with
    | .malformed => (st, ⟨false, .errMalformed⟩)
    | .noMatch => (st, ⟨false, .incorrectIdentity⟩)
    | .matched =>
      match ans with
      | none => (st, ⟨true, .errCallback⟩)
      | some p =>
        match cfg.openFile p with
        | none => (st, ⟨true, .errDecryptKey⟩)
        | some .otherType => (st, ⟨true, .errUnexpectedType⟩)
        | some .invalidKey => (st, ⟨true, .errInvalidKey⟩)
        | some (.key k) =>
          if k ≠ cfg.declared then (st, ⟨true, .errMismatch⟩)
          else (⟨some k⟩, ⟨true, .delegated (cfg.innerUnwrap k stanzas)⟩)

/-- a call: the stanzas of the file and the scripted callback answer -/
abbrev Call := List Stanza × Option Passphrase

/-- a history of calls on one identity value -/
def run {R : Type} (cfg : Config R) : State → List Call → State × List (Out R)
  | st, [] => (st, [])
  | st, c :: cs =>
    let r := step cfg st c.1 c.2
    let rest := run cfg r.1 cs
    (rest.1, r.2 :: rest.2)

/-- the stanza matches the declared key: its type and its tag -/
def isMatch {R : Type} (cfg : Config R) (s : Stanza) : Prop :=
  s.type = cfg.keyType ∧ s.args.head? = some cfg.tag

/-- a stanza the scan passes over: another type, or the declared type with another tag -/
def passedOver {R : Type} (cfg : Config R) (s : Stanza) : Prop :=
  s.type ≠ cfg.keyType ∨ ∃ a, s.args.head? = some a ∧ a ≠ cfg.tag

end SshEnc
end AgeModel
