/-
  Driver handlers for the File model: `fenc` (whole-file encryption under a tape),
  `fdec` (whole-file decryption), `fencw` (Encrypt + Writer against a faulty
  destination), `wrap1`/`unwrap1` (single stanza).
-/
import AgeModel.Wire
import AgeModel.File
import AgeModel.Exec.FormatExec
import AgeModel.Exec.StreamExec
import AgeModel.Armor
import AgeModel.CliIdent
namespace AgeModel
namespace Exec
namespace File
open AgeModel.Format Wire AgeModel.Stream

/-- SSH wire helpers (execution only) -/
def readSshString (b : Bytes) : Option (Bytes × Bytes) :=
  if b.length < 4 then none else
  let n := ofBe (b.take 4)
  let r := b.drop 4
  if r.length < n then none else some (r.take n, r.drop n)

/-- RSA public key from the SSH wire format: string "ssh-rsa", mpint e, mpint n -/
def rsaPubOfWire (w : Bytes) : Option (Nat × Nat) := do
  let (_, r) ← readSshString w
  let (e, r) ← readSshString r
  let (n, _) ← readSshString r
  pure (ofBe n, ofBe e)

/-- private key encoding used on the wire protocol: string n, string d (big-endian) -/
def rsaPrivOfBytes (w : Bytes) : Option (Nat × Nat) := do
  let (n, r) ← readSshString w
  let (d, _) ← readSshString r
  pure (ofBe n, ofBe d)

/-- the concrete primitive suite (execution only; tested against Go in setup) -/
def concrete : Prims where
  aead := chacha
  hkdf := Crypto.hkdfSha256
  hmac := Crypto.hmacSha256
  sha256 := Crypto.sha256
  x25519 := Crypto.x25519
  basepoint := 9 :: List.replicate 31 0
  scrypt := fun pw salt logN => Crypto.scrypt pw salt logN 8 1 32
  oaepEnc := fun pub seed m l =>
    match rsaPubOfWire pub with
    | some (n, e) => Crypto.rsaOaepEncrypt n e seed m l
    | none => none
  oaepDec := fun priv c l =>
    match rsaPrivOfBytes priv with
    | some (n, d) => Crypto.rsaOaepDecrypt n d c l
    | none => none
  rsaPair := fun _ _ => True

def parseStanzas (s : String) : Option (List Stanza) :=
  if s = "-" then some [] else (splitOn s ';').mapM Exec.Format.parseStanza

def parseRecipient (s : String) : Option Recipient :=
  match splitOn s ':' with
  | ["x", pub] => (unhex pub).map Recipient.x25519
  | ["s", pw, logN] => do pure (Recipient.scrypt (← unhex pw) (← nat? logN))
  | ["e", wire, mont] => do pure (Recipient.sshEd (← unhex wire) (← unhex mont))
  | ["r", wire] => do let w ← unhex wire; pure (Recipient.sshRsa w w)
  | ["c", st, labels, fail] => do
    let ss ← parseStanzas st
    let f ← bool? fail
    let ls ← if labels = "none" then some none
             else if labels = "-" then some (some [])
             else ((splitOn labels '.').mapM unhex).map some
    pure (Recipient.custom (fun _ => if f then none else some ss) ls)
  | _ => none

def parseIdentity (s : String) : Option Identity :=
  match splitOn s ':' with
  | ["x", sk] => (unhex sk).map Identity.x25519
  | ["s", pw, m] => do pure (Identity.scrypt (← unhex pw) (← nat? m))
  | ["e", wire, sk] => do pure (Identity.sshEd (← unhex wire) (← unhex sk))
  | ["r", wire, priv] => do pure (Identity.sshRsa (← unhex wire) (← unhex priv))
  | ["c", "inc"] => some (Identity.custom fun _ => .incorrect)
  | ["c", "fatal"] => some (Identity.custom fun _ => .fatal)
  | ["c", "key", k] => (unhex k).map fun k => Identity.custom fun _ => .key k
  | _ => none

def parseList {α} (f : String → Option α) (s : String) : Option (List α) :=
  if s = "-" then some [] else (splitOn s '+').mapM f

def encErr : EncErr → String
  | .noRecipients => "norecipients" | .rand => "rand" | .wrap i => s!"wrap{i}"
  | .incompatible => "incompatible" | .dst => "dst"

def decErr : DecErr → String
  | .noIdentities => "noidentities" | .header => "header" | .noMatch n => s!"nomatch{n}"
  | .fatal i => s!"fatal{i}" | .badMAC => "badmac" | .nonce => "nonce"

def unwrapRes : UnwrapResult → String
  | .key k => "key " ++ hexOrDash k | .incorrect => "incorrect" | .fatal => "fatal"

def handle (op : String) (args : List String) : Option String :=
  match op, args with
  | "fenc", [tape, rs, pt] =>
    some <| match unhex tape, parseList parseRecipient rs, unhex pt with
    | some tape, some rs, some pt =>
      match encryptFile concrete chunkSize tape rs pt with
      | .ok f => "ok " ++ sum f
      | .error e => "err " ++ encErr e
    | _, _, _ => "bad-args"
  | "fencfull", [tape, rs, pt] =>   -- the reference encoder's file, in full
    some <| match unhex tape, parseList parseRecipient rs, unhex pt with
    | some tape, some rs, some pt =>
      match encryptFile concrete chunkSize tape rs pt with
      | .ok f => "ok " ++ hexOrDash f
      | .error e => "err " ++ encErr e
    | _, _, _ => "bad-args"
  | "fdec", [ids, file] =>
    some <| match parseList parseIdentity ids, unhex file with
    | some ids, some file =>
      let (r, c) := decryptInit concrete ids file
      match r with
      | .error e => s!"err {decErr e} consulted={c}"
      | .ok (k, payload) =>
        let (out, o) := AgeModel.Stream.decrypt chacha chunkSize k payload
        s!"ok consulted={c} {outcome o} out={sum out}"
    | _, _ => "bad-args"
  | "fdecf", [ids, file] =>   -- like fdec, but the source fails (non-EOF error) after the given bytes
    some <| match parseList parseIdentity ids, unhex file with
    | some ids, some file =>
      let (r, c) := decryptInit concrete ids file
      match r with
      | .error e => s!"err {decErr e} consulted={c}"
      | .ok (k, payload) =>
        let (out, o) := AgeModel.Stream.decFrom chacha chunkSize k true 0 payload (payload.length + 1)
        s!"ok consulted={c} {outcome o} out={sum out}"
    | _, _ => "bad-args"
  | "afdec", [w, ids, text] =>   -- de-armor, then decrypt what the armored reader releases
    some <| match nat? w, parseList parseIdentity ids, unhex text with
    | some w, some ids, some text =>
      let (bytes, ao) := AgeModel.Armor.read w false text
      let srcFail := ao != AgeModel.Armor.AOut.eof
      -- a header that cannot be completed because the armor failed is an error of Decrypt
      let (r, c) := decryptInit concrete ids bytes
      match r with
      | .error e => s!"err {decErr e} consulted={c}"
      | .ok (k, payload) =>
        let (out, o) := AgeModel.Stream.decFrom chacha chunkSize k srcFail 0 payload (payload.length + 1)
        s!"ok consulted={c} {outcome o} out={sum out}"
    | _, _, _ => "bad-args"
  | "fhdr", [tape, rs] =>   -- header only: file key, stanzas, tape bytes consumed
    some <| match unhex tape, parseList parseRecipient rs with
    | some tape, some rs =>
      match encryptHeader concrete tape rs with
      | .ok (fk, ss, t) =>
        s!"ok fk={hexOrDash fk} used={tape.length - t.length} {Exec.Format.renderHeader { stanzas := ss, mac := headerMAC concrete fk ss }}"
      | .error e => "err " ++ encErr e
    | _, _ => "bad-args"
  | "fencw", [tape, rs, segs, plan, ops] =>
    some <| match unhex tape, parseList parseRecipient rs,
        (if segs = "-" then some [] else (splitOn segs ',').mapM nat?), Exec.parseOps ops with
    | some tape, some rs, some segs, some ops =>
      let go (S : DstSpec) (s0 : S.σ) : String :=
        let d0 : Dst S := { acc := [], st := s0 }
        match encryptInit concrete tape rs segs d0 with
        | (.error e, d) => s!"err {encErr e} acc={sum d.acc}"
        | (.ok (w, k, _), _) =>
          let (w', tr) := Exec.stepTrace k chunkSize w ops []
          s!"ok {";".intercalate tr} acc={sum w'.dst.acc}"
      match splitOn plan ':' with
      | ["ok"] => go DstSpec.perfect ()
      | ["off", l, p, o] =>
        match nat? l, bool? p, bool? o with
        | some l, some p, some o => go (DstSpec.atOffset l p o) (false : Bool)
        | _, _, _ => "bad-plan"
      | ["call", i, n] =>
        match nat? i, nat? n with
        | some i, some n => go (DstSpec.atCall i n) (0 : Nat)
        | _, _ => "bad-plan"
      | _ => "bad-plan"
    | _, _, _, _ => "bad-args"
  | "unwrap1", [id, st] =>
    some <| match parseIdentity id, parseStanzas st with
    | some id, some ss =>
      let (r, log) := id.unwrapLog concrete ss
      s!"{unwrapRes r} kdf={log}"
    | _, _ => "bad-args"
  | "clilazy", [ask, maxwf, st] =>   -- cmd/age LazyScryptIdentity.Unwrap: ask = "none" | hex passphrase
    some <| match (if ask = "none" then some none else (unhex ask).map some), nat? maxwf, parseStanzas st with
    | some ask, some m, some ss =>
      let (r, prompted) := CliIdent.lazyUnwrap concrete ask m ss
      s!"{unwrapRes r} prompted={prompted}"
    | _, _, _ => "bad-args"
  | _, _ => none

end File
end Exec
end AgeModel
