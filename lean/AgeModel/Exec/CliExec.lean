/-
  Driver handlers for the Cli model.

    clean <hex path>                         → `path <hex of filepath.Clean>`
    abs <hex cwd> <hex path>                 → `path <hex of filepath.Abs with that working directory>`
    cli <flags> <out> <recs> <recfiles> <ids> <pos> <world> <oracle> <sum>
    keygen <flags> <out> <pos> <world> <koracle> <sum>

  Every field is free of spaces. Bytes and paths are lowercase hex, `-` the
  empty string. A list is `.` when empty, else `,`-separated elements.

    flags     letters out of n(o arguments) v(ersion) d e a p   (keygen: v y), `-` for none
    recs      <hex>:<ok>            -r values with the oracle's verdict (0/1)
    recfiles  <hex>:<ok>            -R values
    ids       <i|j>:<hex>:<ok>      -i / -j values in command line order
    pos       <hex>                 positional arguments
    world     `;`-separated key=value:
                cwd=<hex abs path> fsize=<n|-> umask=<n> tin=<0|1> close=<0|1>
                out=<t | f | u | l<n>>      terminal, /dev/full, unlimited, accepts n bytes
                nodes=<list of <hex abs path>:<a | d | F | f:<mode>:<hex content>>>
    oracle    `;`-separated: pass=<0|1> wrap=<0|1> dec=<r | k:<hex pt>:<n|->> ct=<len> fl=<len> ver=<hex>
              (the ciphertext is randomised: it is given by its length and stands for that many zero bytes)
    koracle   key=<len> conv=<n | list of hex lines> ver=<hex>
    sum       `hash` (contents as Wire.sum) or `len` (contents as #<length>)

  reply:  exit=<0|1> out=<none | unchanged | absent | dir | full | file:<mode>:<sum>> stdout=<sum> rest=<same|changed>
    `out` is the state of the path named by -o (resolved lexically) — `unchanged`
    when its node equals the initial one; `rest` says whether every other listed
    node is unchanged.
-/
import AgeModel.Wire
import AgeModel.Cli
namespace AgeModel
namespace Exec
namespace Cli
open AgeModel.Cli Wire

def parseList {α} (s : String) (f : String → Option α) : Option (List α) :=
  if s = "." then some [] else (splitOn s ',').mapM f

def kvs (s : String) : List (String × String) :=
  (splitOn s ';').filterMap fun kv =>
    match splitOn kv '=' with
    | [k, v] => some (k, v)
    | _ => none

def field (m : List (String × String)) (k : String) : Option String := m.lookup k

def optNat? (s : String) : Option (Option Nat) := if s = "-" then some none else (nat? s).map some

def toPath (p : Bytes) : Path := absPath [] p

def parseNode (s : String) : Option (Path × Node) :=
  match splitOn s ':' with
  | [p, "a"] => (unhex p).map fun p => (toPath p, .absent)
  | [p, "d"] => (unhex p).map fun p => (toPath p, .dir)
  | [p, "F"] => (unhex p).map fun p => (toPath p, .devFull)
  | [p, "f", m, c] =>
    match unhex p, nat? m, unhex c with
    | some p, some m, some c => some (toPath p, .file c m)
    | _, _, _ => none
  | _ => none

def parseStdout (s : String) : Option Stdout :=
  if s = "t" then some .terminal
  else if s = "f" then some .devFull
  else if s = "u" then some (.limited none)
  else if s.startsWith "l" then (nat? (s.drop 1).toString).map fun n => .limited (some n)
  else none

def parseWorld (s : String) : Option World := do
  let m := kvs s
  let cwd ← (field m "cwd").bind unhex
  let fsize ← (field m "fsize").bind optNat?
  let umask ← (field m "umask").bind nat?
  let tin ← (field m "tin").bind bool?
  let cl ← (field m "close").bind bool?
  let out ← (field m "out").bind parseStdout
  let nodes ← (field m "nodes").bind (parseList · parseNode)
  pure { cwd := toPath cwd, nodes := nodes, fsize := fsize, umask := umask, stdinTerminal := tin,
         stdout := out, closeFails := cl }

def parseFlagged (s : String) : Option (Bytes × Bool) :=
  match splitOn s ':' with
  | [h, ok] => do pure ((← unhex h), (← bool? ok))
  | _ => none

def parseId (s : String) : Option ((IdKind × Bytes) × Bool) :=
  match splitOn s ':' with
  | [k, h, ok] => do
    let kind ← if k = "i" then some IdKind.i else if k = "j" then some IdKind.j else none
    pure ((kind, (← unhex h)), (← bool? ok))
  | _ => none

def parseDec (s : String) : Option DecOutcome :=
  match splitOn s ':' with
  | ["r"] => some .headerRefused
  | ["k", pt, n] => do pure (.ok (← unhex pt) (← optNat? n))
  | _ => none

def verdict (tbl : List (Bytes × Bool)) (x : Bytes) : Bool :=
  match tbl.lookup x with
  | some b => b
  | none => false

def flagSet (s : String) (allowed : List Char) : Option (Char → Bool) :=
  if s = "-" then some fun _ => false
  else if s.toList.all (allowed.contains ·) then some fun c => s.toList.contains c
  else none

inductive SumMode | hash | len

def parseSum (s : String) : Option SumMode :=
  if s = "hash" then some .hash else if s = "len" then some .len else none

def summ (m : SumMode) (b : Bytes) : String :=
  match m with
  | .hash => sum b
  | .len => s!"#{b.length}"

def octal (n : Nat) : String := String.ofList (Nat.toDigits 8 n)

def nodeStr (m : SumMode) : Node → String
  | .absent => "absent"
  | .dir => "dir"
  | .devFull => "full"
  | .file c mode => s!"file:{octal mode}:{summ m c}"

/-- the reply line -/
def report (m : SumMode) (w : World) (outName : Bytes) (r : Result) : String :=
  let target : Option Path := if outName = [] then none else some (absPath w.cwd outName)
  let outS := match target with
    | none => "none"
    | some t => if r.world.get t = w.get t then "unchanged" else nodeStr m (r.world.get t)
  let rest := w.nodes.all fun (k, _) => some k = target || r.world.get k = w.get k
  s!"exit={if r.exit = 0 then 0 else 1} out={outS} stdout={summ m r.stdout} rest={if rest then "same" else "changed"}"

def cli (args : List String) : String :=
  match args with
  | [flags, out, recs, recfiles, ids, pos, world, oracle, sm] =>
    match flagSet flags ['n', 'v', 'd', 'e', 'a', 'p'], unhex out, parseList recs parseFlagged,
          parseList recfiles parseFlagged, parseList ids parseId, parseList pos unhex,
          parseWorld world, parseSum sm with
    | some fl, some out, some recs, some recfiles, some ids, some pos, some w, some sm =>
      let om := kvs oracle
      match (field om "pass").bind bool?, (field om "wrap").bind bool?, (field om "dec").bind parseDec,
            (field om "ct").bind nat?, (field om "fl").bind nat?, (field om "ver").bind unhex with
      | some pass, some wrap, some dec, some ct, some fl', some ver =>
        let a : Args := {
          noArgs := fl 'n', version := fl 'v', decrypt := fl 'd', encrypt := fl 'e', armor := fl 'a',
          passphrase := fl 'p', output := out, recipients := recs.map (·.1),
          recipientsFiles := recfiles.map (·.1), identities := ids.map (·.1), positional := pos }
        let idI := ids.filterMap fun ((k, n), ok) => if k = .i then some (n, ok) else none
        let idJ := ids.filterMap fun ((k, n), ok) => if k = .j then some (n, ok) else none
        let o : Oracle := {
          recipientOK := verdict recs, recipientsFileOK := verdict recfiles,
          identityFileOK := verdict idI, pluginOK := verdict idJ, passphraseOK := pass, wrapOK := wrap,
          dec := dec, ct := List.replicate ct 0, flushed := List.replicate fl' 0, versionLine := ver }
        report sm w (if isFileName out then out else []) (run a w o)
      | _, _, _, _, _, _ => "bad-oracle"
    | _, _, _, _, _, _, _, _ => "bad-args"
  | _ => "bad-arity"

def parseConv (s : String) : Option (Option (List Bytes)) :=
  if s = "n" then some none else (parseList s unhex).map some

def keygen (args : List String) : String :=
  match args with
  | [flags, out, pos, world, oracle, sm] =>
    match flagSet flags ['v', 'y'], unhex out, parseList pos unhex, parseWorld world, parseSum sm with
    | some fl, some out, some pos, some w, some sm =>
      let om := kvs oracle
      match (field om "key").bind nat?, (field om "conv").bind parseConv, (field om "ver").bind unhex with
      | some key, some conv, some ver =>
        let a : KArgs := { version := fl 'v', convert := fl 'y', output := out, positional := pos }
        let o : KOracle := { keyFile := List.replicate key 0, converted := conv, versionLine := ver }
        report sm w out (krun a w o)
      | _, _, _ => "bad-oracle"
    | _, _, _, _, _ => "bad-args"
  | _ => "bad-arity"

def handle (op : String) (args : List String) : Option String :=
  match op, args with
  | "clean", [p] => some ((unhex p).elim "bad-args" fun p => "path " ++ hexOrDash (clean p))
  | "abs", [cwd, p] =>
    some (match unhex cwd, unhex p with
      | some cwd, some p => "path " ++ hexOrDash (render (absPath (toPath cwd) p))
      | _, _ => "bad-args")
  | "cli", _ => some (cli args)
  | "keygen", _ => some (keygen args)
  | _, _ => none

end Cli
end Exec
end AgeModel
