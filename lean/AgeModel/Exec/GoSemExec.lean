/-
  Driver handlers for AgeModel/GoSem.lean — the hand-written meaning of the
  standard-library calls that the TRANSLATED functions (Extracted/Funcs.lean)
  make. They are exercised against Go itself (suite C09, kinds `gosem-*`), so
  that a slip in these stubs is a disagreement and not a silent assumption.

    gorunes <s>              → <off>:<rune>,…  | -          for i, r := range s
    golower <s> / goupper <s> → <bytes> | opaque            strings.ToLower / ToUpper (opaque beyond ASCII)
    goidxrune <s> <rune>     → <int> | opaque               strings.IndexRune
    golastidx <s> <sep>      → <int>                        strings.LastIndex
    gotrimp <s> <p> / gotrims <s> <p>  → <bytes>            strings.TrimPrefix / TrimSuffix
    gohasp <s> <p> / gohass <s> <p>    → 0|1                strings.HasPrefix / HasSuffix
    gosplit <s> <byte>       → <part>,<part>,…              strings.Split with a one-byte separator
    goatoi <s>               → <int> ok | <int> err         strconv.Atoi
    gorematch <pat> <s>      → 0 | 1 | unsupported          regexp.MustCompile(pat).MatchString(s), subset ^items$
    goscan <bytes>           → <tok>,<tok>,… err=0|1        bufio.Scanner (ScanLines) tokens and whether Err() != nil
    gosort <s>,<s>,…         → <s>,<s>,…                    sort.Strings
    goreadfull <data> <fail> <n> → <bytes> nil|eof|unexpected|src rest=<k>    io.ReadFull on a source that ends cleanly or fails
    gobufread <data> <delim> → <bytes> nil|eof rest=<k>     bufio.Reader.ReadBytes
    gocount <s> <sep>        → <int>                        strings.Count
    goallspace <b>           → 0|1                          len(bytes.TrimSpace(b)) == 0
    gocontainsany <b> <set>  → 0|1                          bytes.ContainsAny, ASCII set
    goitoa <int>             → <bytes>                      strconv.Itoa
    gohex <b>                → <bytes>                      hex.EncodeToString
    goreadalllimit <data> <n> → <bytes> nil rest=<k>        io.ReadAll(io.LimitReader(bufio.Reader, n))
    gobufwriteto <data> ok|err|short <k> → <n> nil|err|short rest=<r> calls=<c> got=<bytes>   (*bytes.Buffer).WriteTo
-/
import AgeModel.Wire
import AgeModel.GoSem
namespace AgeModel
namespace Exec
namespace GoSem
open Wire

def b2 (args : List String) (f : Bytes → Bytes → String) : String :=
  match args with
  | [a, b] => match unhex a, unhex b with
    | some a, some b => f a b
    | _, _ => "bad-args"
  | _ => "bad-arity"

def b1 (args : List String) (f : Bytes → String) : String :=
  match args with
  | [a] => match unhex a with
    | some a => f a
    | none => "bad-args"
  | _ => "bad-arity"

def bit (b : Bool) : String := if b then "1" else "0"

def handle (op : String) (args : List String) : Option String :=
  match op with
  | "gorunes" => some <| b1 args fun s =>
      let rs := Go.runes s
      if rs.isEmpty then "-" else ",".intercalate (rs.map fun p => s!"{p.1}:{p.2}")
  | "golower" => some <| b1 args fun s => if Go.isAscii s then hexOrDash (Go.strings_ToLower s) else "opaque"
  | "goupper" => some <| b1 args fun s => if Go.isAscii s then hexOrDash (Go.strings_ToUpper s) else "opaque"
  | "goidxrune" => some <|
      match args with
      | [a, r] => match unhex a, r.toInt? with
        | some s, some r =>
          if (0 ≤ r ∧ r < 0x80) ∨ Go.isAscii s then toString (Go.strings_IndexRune s r) else "opaque"
        | _, _ => "bad-args"
      | _ => "bad-arity"
  | "golastidx" => some <| b2 args fun s sep => toString (Go.strings_LastIndex s sep)
  | "gotrimp" => some <| b2 args fun s p => hexOrDash (Go.strings_TrimPrefix s p)
  | "gotrims" => some <| b2 args fun s p => hexOrDash (Go.strings_TrimSuffix s p)
  | "gohasp" => some <| b2 args fun s p => bit (Go.strings_HasPrefix s p)
  | "gohass" => some <| b2 args fun s p => bit (Go.strings_HasSuffix s p)
  | "gosplit" => some <| b2 args fun s c =>
      match c with
      | [c] => ",".intercalate ((Go.strings_Split1 s c).map hexOrDash)
      | _ => "bad-args"
  | "goatoi" => some <| b1 args fun s =>
      let r := Go.strconv_Atoi s
      s!"{r.1} {if r.2.isNone then "ok" else "err"}"
  | "gorematch" => some <| b2 args fun pat s =>
      match pat with
      | 94 :: body =>
        if body.getLast? == some 36 && (Go.reItems (body.length + 1) body.dropLast).isSome then bit (Go.regexp_MatchString pat s)
        else "unsupported"
      | _ => "unsupported"
  | "goscan" => some <| b1 args fun s =>
      let toks := Go.scanner_Tokens s
      let t := if toks.isEmpty then "-" else ",".intercalate (toks.map fun t => if t.isEmpty then "e" else hex t)
      s!"{t} err={bit (Go.scanner_Err s).isSome}"
  | "gosort" => some <|
      match args with
      | [a] =>
        let parts := (Wire.splitOn a ',').map fun x => if x == "e" then some [] else unhex x
        if parts.any Option.isNone then "bad-args"
        else ",".intercalate ((Go.sort_Strings (parts.filterMap id)).map fun t => if t.isEmpty then "e" else hex t)
      | _ => "bad-arity"
  | "goreadfull" => some <|
      match args with
      | [d, f, n] => match unhex d, Wire.bool? f, n.toNat? with
        | some d, some f, some n =>
          let r := Go.io_ReadFull ⟨d, f⟩ (Int.ofNat n)
          let e := if r.2.1 == none then "nil" else if r.2.1 == Go.io_EOF then "eof" else if r.2.1 == Go.io_ErrUnexpectedEOF then "unexpected" else "src"
          s!"{hexOrDash r.1} {e} rest={r.2.2.data.length}"
        | _, _, _ => "bad-args"
      | _ => "bad-arity"
  | "gobufread" => some <| b2 args fun d c =>
      match c with
      | [c] =>
        let r := Go.bufio_ReadBytes d c
        s!"{hexOrDash r.1} {if r.2.1 == none then "nil" else "eof"} rest={r.2.2.length}"
      | _ => "bad-args"
  | "gobufwriteto" => some <|
      match args with
      | [d, mode, k] => match unhex d, k.toNat? with
        | some d, some k =>
          -- the destination: (bytes received, calls)
          let write (st : Bytes × Nat) (p : Bytes) : Go.M (Int × Option Go.Err × (Bytes × Nat)) :=
            let n := if mode != "ok" && k < p.length then k else p.length
            .ok (Int.ofNat n, if mode == "err" then some ⟨"dst", 0, []⟩ else none, (st.1 ++ p.take n, st.2 + 1))
          match Go.buffer_WriteTo write d (([], 0) : Bytes × Nat) with
          | .ok r =>
            let cls := if r.2.1 == none then "nil" else if r.2.1 == Go.io_ErrShortWrite then "short" else "err"
            s!"{r.1} {cls} rest={r.2.2.1.length} calls={r.2.2.2.2} got={hexOrDash r.2.2.2.1}"
          | .error _ => "fault"
        | _, _ => "bad-args"
      | _ => "bad-arity"
  | "gocount" => some <| b2 args fun s sep => toString (Go.strings_Count s sep)
  | "goallspace" => some <| b1 args fun s => bit (Go.bytes_allSpace s)
  | "gocontainsany" => some <| b2 args fun s set => bit (Go.bytes_ContainsAny s set)
  | "goitoa" => some <|
      match args with
      | [v] => match v.toInt? with
        | some i => hexOrDash (Go.strconv_Itoa i)
        | none => "bad-args"
      | _ => "bad-arity"
  | "gohex" => some <| b1 args fun s => hexOrDash (Go.hex_EncodeToString s)
  | "goreadalllimit" => some <|
      match args with
      | [d, n] => match unhex d, n.toNat? with
        | some d, some n =>
          let r := Go.io_ReadAllLimit d (Int.ofNat n)
          s!"{hexOrDash r.1} {if r.2.1 == none then "nil" else "err"} rest={r.2.2.length}"
        | _, _ => "bad-args"
      | _ => "bad-arity"
  | _ => none

end GoSem
end Exec
end AgeModel
