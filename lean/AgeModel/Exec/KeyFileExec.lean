/-
  Driver handlers for the KeyFile model. `handle op args` returns `none` when the
  operation is not one of this file's.

  The single-line parsers are parameters of the model; the harness supplies
  their verdicts per scanner line (as the real parsers gave them), the model
  computes the file-level result with `maxTok = 65536`, `limit = 2^24`,
  `lineLimit = 8192`.

    kfids  <filehex> <mask>     age.ParseIdentities;  mask: one digit per line, 1 = ParseX25519Identity accepts
    kfrcp  <filehex> <mask>     age.ParseRecipients;  1 = ParseX25519Recipient accepts
        → ok <count> <sum of the key lines joined with \n> | err line <n> | err nokeys | err scan
    kfcliids <filehex> <mask>   cmd/age parseIdentities; digit = pluginOk + 2·x25519Ok
        → ok <count> | err line <n> | err nokeys | err scan
    kfclircp <filehex> <mask>   cmd/age parseRecipientsFile; five digits per line:
                                pluginOk x25519Ok sshOk sniff(0 none,1 ssh-rsa,2 ssh-ed25519,3 other) sshValid
        → (ok <count> | err line <n> | err toolong <n> | err nokeys | err scan) skipped=<n,n,…|->

  A mask whose length does not fit the number of lines the model's scanner
  delivers is answered `bad-mask <lines>` (the harness takes the lines from the
  real bufio.Scanner, so this compares the scanner model too).
-/
import AgeModel.Wire
import AgeModel.KeyFile
namespace AgeModel
namespace Exec
namespace KeyFile
open AgeModel.KeyFile Wire

def maxTok : Nat := 65536
def limit : Nat := 2 ^ 24
def lineLimit : Nat := 8192

/-- verdict table: line content ↦ digits of its mask entry (first occurrence wins;
    the real parsers are functions of the content) -/
def lookup (tab : List (Bytes × List Nat)) (l : Bytes) : List Nat :=
  match tab.find? (fun e => e.1 == l) with
  | some e => e.2
  | none => []

def digits (s : String) : Option (List Nat) :=
  if s = "-" then some [] else
  s.toList.mapM fun c => if '0' ≤ c ∧ c ≤ '9' then some (c.toNat - 48) else none

def chunks (k : Nat) : Nat → List Nat → List (List Nat)
  | 0, _ => []
  | fuel + 1, ds => if ds.isEmpty then [] else ds.take k :: chunks k fuel (ds.drop k)

def table (lines : List Bytes) (ds : List Nat) (k : Nat) : Option (List (Bytes × List Nat)) :=
  if ds.length = k * lines.length then some (lines.zip (chunks k ds.length ds)) else none

def errStr : KeyFileErr → String
  | .atLine n => s!"err line {n}"
  | .noKeys => "err nokeys"
  | .scanErr => "err scan"
  | .lineTooLong n => s!"err toolong {n}"

def joinNL : List Bytes → Bytes
  | [] => []
  | [l] => l
  | l :: ls => l ++ [10] ++ joinNL ls

def natList (ns : List Nat) : String :=
  if ns.isEmpty then "-" else ",".intercalate (ns.map toString)

def bit (ds : List Nat) (i : Nat) : Bool := ds[i]? = some 1

def lib (which : Nat) (args : List String) : String :=
  match args with
  | [file, mask] =>
    match unhex file, digits mask with
    | some b, some ds =>
      let lines := linesOf maxTok limit b
      match table lines ds 1 with
      | none => s!"bad-mask {lines.length}"
      | some tab =>
        let p : Bytes → Option Bytes := fun l => if bit (lookup tab l) 0 then some l else none
        let r := if which = 0 then parseIdentities p maxTok limit b else parseRecipients p maxTok limit b
        match r with
        | .ok ks => s!"ok {ks.length} {sum (joinNL ks)}"
        | .error e => errStr e
    | _, _ => "bad-args"
  | _ => "bad-arity"

def cliIds (args : List String) : String :=
  match args with
  | [file, mask] =>
    match unhex file, digits mask with
    | some b, some ds =>
      let lines := linesOf maxTok limit b
      match table lines ds 1 with
      | none => s!"bad-mask {lines.length}"
      | some tab =>
        let pp : Bytes → Option Bytes := fun l =>
          match lookup tab l with | [d] => if d % 2 = 1 then some l else none | _ => none
        let px : Bytes → Option Bytes := fun l =>
          match lookup tab l with | [d] => if d / 2 = 1 then some l else none | _ => none
        match cliParseIdentities pp px maxTok limit b with
        | .ok ks => s!"ok {ks.length}"
        | .error e => errStr e
    | _, _ => "bad-args"
  | _ => "bad-arity"

def cliRcp (args : List String) : String :=
  match args with
  | [file, mask] =>
    match unhex file, digits mask with
    | some b, some ds =>
      let lines := linesOf maxTok limit b
      match table lines ds 5 with
      | none => s!"bad-mask {lines.length}"
      | some tab =>
        let v : Nat → Bytes → Option Bytes := fun i l => if bit (lookup tab l) i then some l else none
        let sniff : Bytes → Option Bytes := fun l =>
          match (lookup tab l)[3]? with
          | some 1 => some sshRsa
          | some 2 => some sshEd25519
          | some 3 => some (str "other")
          | _ => none
        let valid : Bytes → Bool := fun l => bit (lookup tab l) 4
        let o := cliParseRecipientsFile (cliRecipientParse (v 0) (v 1) (v 2)) sniff valid lineLimit maxTok limit b
        let r := match o.res with
          | .ok ks => s!"ok {ks.length}"
          | .error e => errStr e
        s!"{r} skipped={natList o.skipped}"
    | _, _ => "bad-args"
  | _ => "bad-arity"

def handle (op : String) (args : List String) : Option String :=
  match op with
  | "kfids" => some (lib 0 args)
  | "kfrcp" => some (lib 1 args)
  | "kfcliids" => some (cliIds args)
  | "kfclircp" => some (cliRcp args)
  | _ => none

end KeyFile
end Exec
end AgeModel
