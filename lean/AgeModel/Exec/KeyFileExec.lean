/-
  Driver handlers for the KeyFile model. `handle op args` returns `none` when the
  operation is not one of this file's.
-/
import AgeModel.Wire
namespace AgeModel
namespace Exec
namespace KeyFile

def handle (op : String) (args : List String) : Option String :=
  match op, args with
  | _, _ => none

end KeyFile
end Exec
end AgeModel
