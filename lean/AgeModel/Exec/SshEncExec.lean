/-
  Driver handlers for the SshEnc model. `handle op args` returns `none` when the
  operation is not one of this file's.
-/
import AgeModel.Wire
namespace AgeModel
namespace Exec
namespace SshEnc

def handle (op : String) (args : List String) : Option String :=
  match op, args with
  | _, _ => none

end SshEnc
end Exec
end AgeModel
