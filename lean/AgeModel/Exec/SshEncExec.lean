/-
  Driver handlers for the SshEnc model. `handle op args` returns `none` when the
  operation is not one of this file's.

    sshenc <stored> <arity> <calls>
      stored : 1 = the key file holds the declared key pair (key 1), 2 = another key
               pair of the same type, x = a key of another kind; it opens under the
               right passphrase only
      arity  : number of stanza arguments the plain identity expects (ssh-rsa 1, ssh-ed25519 2)
      calls  : `;`-separated `<stanzas>/<answer>`; answer r = right passphrase,
               w = wrong passphrase, e = the callback fails;
               stanzas `-` or `,`-separated `<ty>:<tag>:<nargs>:<body>` with
               ty s = declared key type / o = another type, tag = number of the key
               whose fingerprint is the first argument (`-` if nargs = 0), body =
               number of the key the body was wrapped for (0 = none)
      → `;`-separated `<prompted>:<class>` and ` cached=<0|1>`; classes: ok incorrect
        malformed innererr (from the plain identity: wrong argument count / body
        does not decrypt), cberr keyerr unexpected invalidkey mismatch

  The plain identities (agessh.Ed25519Identity / RSAIdentity) are a parameter of
  the model; here they are instantiated with `inner`, a small model of their
  `multiUnwrap` loop.
-/
import AgeModel.Wire
import AgeModel.SshEnc
namespace AgeModel
namespace Exec
namespace SshEnc
open AgeModel.SshEnc Wire

inductive InnerRes where
  | ok | incorrect | malformed | innerErr
deriving DecidableEq

/-- multiUnwrap of the plain identity for key `k`: a stanza of another type or with
    another tag is passed over, a wrong argument count or a body that does not
    decrypt is an error, the first stanza that decrypts wins -/
def inner (arity : Nat) (k : KeyId) : List Stanza → InnerRes
  | [] => .incorrect
  | s :: ss =>
    if s.type ≠ [1] then inner arity k ss
    else if s.args.length ≠ arity then .malformed
    else if s.args.head? ≠ some [k.toUInt8] then inner arity k ss
    else if s.body = [k.toUInt8] then .ok else .innerErr

def parseStanza (t : String) : Option Stanza :=
  match splitOn t ':' with
  | [ty, tag, nargs, body] =>
    match nat? nargs, nat? body with
    | some n, some b =>
      let type : Bytes := if ty = "s" then [1] else [0]
      if ty ≠ "s" ∧ ty ≠ "o" then none
      else if n = 0 then (if tag = "-" then some ⟨type, [], [b.toUInt8]⟩ else none)
      else match nat? tag with
        | some g => some ⟨type, [g.toUInt8] :: List.replicate (n - 1) [255], [b.toUInt8]⟩
        | none => none
    | _, _ => none
  | _ => none

def parseCall (t : String) : Option Call :=
  match splitOn t '/' with
  | [ss, ans] =>
    let stanzas := if ss = "-" then some [] else (splitOn ss ',').mapM parseStanza
    let a : Option (Option Passphrase) :=
      if ans = "r" then some (some [1]) else if ans = "w" then some (some [2])
      else if ans = "e" then some none else none
    match stanzas, a with
    | some s, some a => some (s, a)
    | _, _ => none
  | _ => none

def resStr : Result InnerRes → String
  | .delegated .ok => "ok"
  | .delegated .incorrect => "incorrect"
  | .delegated .malformed => "malformed"
  | .delegated .innerErr => "innererr"
  | .incorrectIdentity => "incorrect"
  | .errMalformed => "malformed"
  | .errCallback => "cberr"
  | .errDecryptKey => "keyerr"
  | .errUnexpectedType => "unexpected"
  | .errInvalidKey => "invalidkey"
  | .errMismatch => "mismatch"

def sshenc (args : List String) : String :=
  match args with
  | [stored, arity, calls] =>
    let opened : Option Opened :=
      if stored = "1" then some (.key 1) else if stored = "2" then some (.key 2)
      else if stored = "x" then some .otherType else none
    match opened, nat? arity, (if calls = "-" then some [] else (splitOn calls ';').mapM parseCall) with
    | some o, some ar, some cs =>
      let cfg : Config InnerRes :=
        { keyType := [1], tag := [1], declared := 1,
          openFile := fun p => if p = [1] then some o else none,
          innerUnwrap := inner ar }
      let r := run cfg fresh cs
      let outs := r.2.map fun o => s!"{if o.prompted then 1 else 0}:{resStr o.result}"
      s!"{";".intercalate outs} cached={if r.1.cached.isSome then 1 else 0}"
    | _, _, _ => "bad-args"
  | _ => "bad-arity"

def handle (op : String) (args : List String) : Option String :=
  match op with
  | "sshenc" => some (sshenc args)
  | _ => none

end SshEnc
end Exec
end AgeModel
