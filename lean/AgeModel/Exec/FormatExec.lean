/-
  Driver handlers for the Format model. `handle op args` returns `none` when the
  operation is not one of this file's.
-/
import AgeModel.Wire
namespace AgeModel
namespace Exec
namespace Format

def handle (op : String) (args : List String) : Option String :=
  match op, args with
  | _, _ => none

end Format
end Exec
end AgeModel
