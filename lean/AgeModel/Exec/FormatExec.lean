/-
  Driver handlers for the Format model: `hparse`, `hmarshal`, `b64raw`, `b64std`.
-/
import AgeModel.Wire
import AgeModel.Format
namespace AgeModel
namespace Exec
namespace Format
open AgeModel.Format Wire

def renderStanza (s : Stanza) : String :=
  ",".intercalate ((s.type :: s.args).map hexOrDash) ++ "|" ++ hexOrDash s.body

def renderHeader (h : Header) : String :=
  (if h.stanzas.isEmpty then "-" else ";".intercalate (h.stanzas.map renderStanza)) ++ " mac=" ++ hexOrDash h.mac

def parseStanza (s : String) : Option Stanza :=
  match splitOn s '|' with
  | [ta, body] =>
    match (splitOn ta ',').mapM unhex, unhex body with
    | some (t :: args), some b => some { type := t, args := args, body := b }
    | _, _ => none
  | _ => none

def parseHeaderArg (st mac : String) : Option Header := do
  let ss ← if st = "-" then some [] else (splitOn st ';').mapM parseStanza
  let m ← unhex mac
  pure { stanzas := ss, mac := m }

def errName : Err → String
  | .intro => "intro" | .eof => "eof" | .footer => "footer" | .stanzaLine => "stanzaline"
  | .bodyLine => "bodyline" | .fuel => "fuel"

def handle (op : String) (args : List String) : Option String :=
  match op, args with
  | "hparse", [b] =>
    some <| match unhex b with
    | none => "bad-args"
    | some b =>
      match parse b with
      | .ok (h, rest) => s!"ok {renderHeader h} rest={sum rest}"
      | .error _ => "err"
  | "hparsee", [b] =>   -- with the error class (diagnostics)
    some <| match unhex b with
    | none => "bad-args"
    | some b =>
      match parse b with
      | .ok (h, rest) => s!"ok {renderHeader h} rest={sum rest}"
      | .error e => s!"err {errName e}"
  | "hmarshal", [st, mac] =>
    some <| match parseHeaderArg st mac with
    | none => "bad-args"
    | some h => sum (marshal h)
  | "b64rawdec", [s] =>
    some <| match unhex s with
    | none => "bad-args"
    | some s => match decodeString s with
      | some b => "ok " ++ hexOrDash b
      | none => "err"
  | "b64stddec", [s] =>
    some <| match unhex s with
    | none => "bad-args"
    | some s => match B64.decStd s with
      | some b => "ok " ++ hexOrDash b
      | none => "err"
  | "b64rawenc", [s] => some <| match unhex s with | none => "bad-args" | some s => hexOrDash (B64.encRaw s)
  | "b64stdenc", [s] => some <| match unhex s with | none => "bad-args" | some s => hexOrDash (B64.encStd s)
  | _, _ => none

end Format
end Exec
end AgeModel
