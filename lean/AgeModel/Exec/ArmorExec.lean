/-
  Driver handlers for the Armor model: `aenc`, `adec`, `aw` (writer run against a
  faulty destination), `ar` (reader run with read sizes).
-/
import AgeModel.Wire
import AgeModel.Armor
namespace AgeModel
namespace Exec
namespace Armor
open AgeModel.Armor Wire AgeModel.Stream

def maxWhitespace : Nat := 1024

def outName : AOut → String
  | .eof => "eof" | .err => "err"

def werr : Option WErr → String
  | none => "ok" | some .dst => "dsterr" | some .closed => "closed"

def parseAOps (s : String) : Option (List AOp) :=
  if s = "-" then some [] else
  (splitOn s ';').mapM fun t =>
    if t = "c" then some AOp.close
    else match splitOn t ':' with
      | ["w", data, segs] => do
        let d ← unhex data
        let sg ← if segs = "-" then some [] else (splitOn segs ',').mapM nat?
        pure (AOp.write d sg)
      | _ => none

def stepTrace {S : DstSpec} : AWriter S → List AOp → List String → AWriter S × List String
  | a, [], acc => (a, acc.reverse)
  | a, op :: ops, acc =>
    let (a', e) := a.step op
    stepTrace a' ops (s!"{werr e},{a'.dst.acc.length}" :: acc)

def runW (S : DstSpec) (s0 : S.σ) (ops : List AOp) : String :=
  let (a, tr) := stepTrace (AWriter.new ({ acc := [], st := s0 } : Dst S)) ops []
  s!"{if tr.isEmpty then "-" else ";".intercalate tr} acc={sum a.dst.acc}"

def handle (op : String) (args : List String) : Option String :=
  match op, args with
  | "aenc", [b] => some <| match unhex b with | some b => sum (armor b) | none => "bad-args"
  | "adec", [w, fail, t] =>
    some <| match nat? w, bool? fail, unhex t with
    | some w, some f, some t => let (out, o) := read w f t; s!"{outName o} out={sum out}"
    | _, _, _ => "bad-args"
  | "ar", [w, fail, t, sizes] =>
    some <| match nat? w, bool? fail, unhex t, (if sizes = "-" then some [] else (splitOn sizes ',').mapM nat?) with
    | some w, some f, some t, some sizes =>
      let tr := (AReader.new t).trace w f sizes
      let all : Bytes := (tr.map (·.1)).flatten
      let steps := tr.map fun (b, e) => s!"{b.length},{match e with | none => "ok" | some o => outName o}"
      s!"{";".intercalate steps} out={sum all}"
    | _, _, _, _ => "bad-args"
  | "aw", [plan, ops] =>
    some <| match parseAOps ops with
    | some ops =>
      match splitOn plan ':' with
      | ["ok"] => runW DstSpec.perfect () ops
      | ["off", l, p, o] =>
        match nat? l, bool? p, bool? o with
        | some l, some p, some o => runW (DstSpec.atOffset l p o) (false : Bool) ops
        | _, _, _ => "bad-plan"
      | _ => "bad-plan"
    | none => "bad-args"
  | _, _ => none

end Armor
end Exec
end AgeModel
