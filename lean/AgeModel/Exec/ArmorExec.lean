/-
  Driver handlers for the Armor model. `handle op args` returns `none` when the
  operation is not one of this file's.
-/
import AgeModel.Wire
namespace AgeModel
namespace Exec
namespace Armor

def handle (op : String) (args : List String) : Option String :=
  match op, args with
  | _, _ => none

end Armor
end Exec
end AgeModel
