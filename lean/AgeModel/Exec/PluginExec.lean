/-
  Driver handlers for the Plugin model (C16).

    plugrec <ui> <idmode 0|1> <enc> <filekey> <conv>
    plugid  <ui> <enc> <stanzas> <conv>

  <ui>       three characters, one per callback (DisplayMessage, RequestValue,
             Confirm): `a` absent (nil) / `o` answers / `e` returns an error.
             Scripted answers: RequestValue → "secret" if secret else "public";
             Confirm → yes unless the prompt is the two bytes "no".
  <enc>      hex of the recipient / identity string
  <filekey>  hex (`-` = empty)
  stanza     `<typehex>[,<arghex>]*|<bodyhex>`   (every string hex-encoded, body `-` if empty)
  <stanzas>  `-` or stanzas separated by `;`
  <conv>     stanzas separated by `;` followed by the end marker `eof` or `bad`
             (so the empty conversation is just `eof`)

  Reply: `<class> p1=<stanzas> r=<stanzas> ui=<calls>[ <values>]` where class is
  one of `ok` / `incorrect` / `pluginerr:<hex>` / `protocol` / `eof` /
  `malformed` / `nostanzas`, p1 is phase 1 WITHOUT the grease stanza, r the
  replies, ui the log of callback invocations (`d:<body>` /
  `r:<prompt>:<secret>` / `c:<prompt>:<yes>:<no>`), and the values of a
  successful call are `st=<stanzas> labels=nil|some:<hex,…>` (plugrec) or
  `key=<hex>` (plugid).
-/
import AgeModel.Wire
import AgeModel.Plugin
namespace AgeModel
namespace Exec
namespace Plugin
open AgeModel.Plugin Wire

/-! strict unpadded standard base64 (what `format.DecodeString` accepts) -/

def b64val (c : Char) : Option Nat :=
  let n := c.toNat
  if 65 ≤ n ∧ n ≤ 90 then some (n - 65)
  else if 97 ≤ n ∧ n ≤ 122 then some (n - 71)
  else if 48 ≤ n ∧ n ≤ 57 then some (n + 4)
  else if c = '+' then some 62
  else if c = '/' then some 63
  else none

def b64go : List Nat → Option Bytes
  | [] => some []
  | [_] => none
  | [a, b] => if b % 16 = 0 then some [(a * 4 + b / 16).toUInt8] else none
  | [a, b, c] => if c % 4 = 0 then some [(a * 4 + b / 16).toUInt8, ((b % 16) * 16 + c / 4).toUInt8] else none
  | a :: b :: c :: d :: rest =>
    (b64go rest).map fun r =>
      (a * 4 + b / 16).toUInt8 :: ((b % 16) * 16 + c / 4).toUInt8 :: ((c % 4) * 64 + d).toUInt8 :: r

def b64dec (s : String) : Option Bytes := (s.toList.mapM b64val).bind b64go

/-! parsing -/

def unhexStr (s : String) : Option String := do
  let b ← unhex s
  String.fromUTF8? (ByteArray.mk b.toArray)

def parseStanza (s : String) : Option Stanza :=
  match splitOn s '|' with
  | [head, body] =>
    match (splitOn head ',').mapM unhexStr, unhex body with
    | some (t :: args), some b => some ⟨t, args, b⟩
    | _, _ => none
  | _ => none

def parseStanzas (s : String) : Option (List Stanza) :=
  if s = "-" then some [] else (splitOn s ';').mapM parseStanza

def parseConv (s : String) : Option Conv :=
  let parts := splitOn s ';'
  match parts.getLast? with
  | none => none
  | some last =>
    let e : Option End := if last = "eof" then some .eof else if last = "bad" then some .malformed else none
    match e, parts.dropLast.mapM parseStanza with
    | some e, some ms => some ⟨ms, e⟩
    | _, _ => none

/-! the scripted UI; its state is the log of invocations -/

def mkUI (code : String) : Option (UI (List String)) :=
  match code.toList with
  | [d, r, c] =>
    if [d, r, c].all (fun x => x = 'a' ∨ x = 'o' ∨ x = 'e') then
      some {
        display := if d = 'a' then none else
          some fun log body => (log ++ [s!"d:{hexOrDash body}"], d = 'o')
        request := if r = 'a' then none else
          some fun log prompt secret =>
            (log ++ [s!"r:{hexOrDash prompt}:{if secret then "1" else "0"}"],
             if r = 'o' then some (str (if secret then "secret" else "public")) else none)
        confirm := if c = 'a' then none else
          some fun log prompt yes no =>
            (log ++ [s!"c:{hexOrDash prompt}:{hexOrDash yes}:{hexOrDash no}"],
             if c = 'o' then some (prompt != str "no") else none) }
    else none
  | _ => none

/-! rendering -/

def hexS (s : String) : String := hexOrDash (str s)

def showStanza (s : Stanza) : String :=
  ",".intercalate ((s.type :: s.args).map hexS) ++ "|" ++ hexOrDash s.body

def showStanzas (l : List Stanza) : String :=
  if l.isEmpty then "-" else ";".intercalate (l.map showStanza)

def showErr : ClientErr → String
  | .incorrectIdentity => "incorrect"
  | .pluginError t => s!"pluginerr:{hexOrDash t}"
  | .protocol => "protocol"
  | .ended .eof => "eof"
  | .ended .malformed => "malformed"
  | .noStanzas => "nostanzas"

def dropGrease : List Stanza → List Stanza
  | a :: _ :: rest => a :: rest
  | l => l

def showOutcome {α : Type} (o : Outcome (List String) α) (showOk : α → String) : String :=
  let ui := if o.ui.isEmpty then "-" else ";".intercalate o.ui
  let (cls, vals) := match o.result with
    | .ok v => ("ok", " " ++ showOk v)
    | .error e => (showErr e, "")
  s!"{cls} p1={showStanzas (dropGrease o.phase1)} r={showStanzas o.replies} ui={ui}{vals}"

def plugrec (args : List String) : String :=
  match args with
  | [ui, idm, enc, fk, conv] =>
    match mkUI ui, bool? idm, unhexStr enc, unhex fk, parseConv conv with
    | some ui, some idm, some enc, some fk, some conv =>
      showOutcome (recipientClient ui b64dec [] idm enc fk "grease" conv) fun (sts, labels) =>
        let l := match labels with
          | none => "nil"
          | some ls => "some:" ++ ",".intercalate (ls.map hexS)
        s!"st={showStanzas sts} labels={l}"
    | _, _, _, _, _ => "bad-args"
  | _ => "bad-arity"

def plugid (args : List String) : String :=
  match args with
  | [ui, enc, sts, conv] =>
    match mkUI ui, unhexStr enc, parseStanzas sts, parseConv conv with
    | some ui, some enc, some sts, some conv =>
      showOutcome (identityClient ui b64dec [] enc sts "grease" conv) fun k => s!"key={hexOrDash k}"
    | _, _, _, _ => "bad-args"
  | _ => "bad-arity"

def handle (op : String) (args : List String) : Option String :=
  match op with
  | "plugrec" => some (plugrec args)
  | "plugid" => some (plugid args)
  | _ => none

end Plugin
end Exec
end AgeModel
