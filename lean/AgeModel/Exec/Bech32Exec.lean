/-
  Driver handlers for the Bech32 model. `handle op args` returns `none` when the
  operation is not one of this file's.
-/
import AgeModel.Wire
namespace AgeModel
namespace Exec
namespace Bech32

def handle (op : String) (args : List String) : Option String :=
  match op, args with
  | _, _ => none

end Bech32
end Exec
end AgeModel
