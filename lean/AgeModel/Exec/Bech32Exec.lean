/-
  Driver handlers for the Bech32 / key-string model (C09, C17).  All arguments
  are byte strings in hex (`-` = empty); outputs use `Wire.sum`.

    b32enc <hrp> <data>     → ok <string> | err          bech32.Encode
    b32dec <string>         → ok <hrp> <data> | err      bech32.Decode
    b32decx <string>        → ok … | err:<class>          (diagnostic: the model's error class)
    xrec <string>           → ok <key> | err              age.ParseX25519Recipient
    xid <string>            → ok <key> | err              age.ParseX25519Identity
    xrecstr <key>           → <string>                    (*X25519Recipient).String
    xidstr <key>            → <string>                    (*X25519Identity).String
    prec <string>           → ok <name> <data> | err      plugin.ParseRecipient
    pid <string>            → ok <name> <data> | err      plugin.ParseIdentity
    pencrec <name> <data>   → <string>  ("-" when the name is invalid)   plugin.EncodeRecipient
    pencid <name> <data>    → <string>  ("-" when the name is invalid)   plugin.EncodeIdentity
    nrec <string>           → ok <name> <encoding> | err   plugin.NewRecipient
    nid <string>            → ok <name> <encoding> | err   plugin.NewIdentity
    pidnodata <name>        → ok <name> <encoding> | err   plugin.NewIdentityWithoutData
    pexec <name>            → <command> | sep             first argument of exec.Command in openClientConnection
                              for a client value with that name (`sep`: refused, nothing is started)
    clirec <arg>            → plugin <name> <command> | x25519 <key> | ssh | err    cmd/age parseRecipient
    cliid <arg>             → plugin <name> <command> | x25519 <key> | err          cmd/age parseIdentity
    clij <name>             → plugin <name> <command> | err                         cmd/age -j
    kconsts                 → ok | bad    byte constants of the model equal the string literals
-/
import AgeModel.Wire
import AgeModel.Keys
namespace AgeModel
namespace Exec
namespace Bech32
open Wire Keys

def errClass : AgeModel.Bech32.Err → String
  | .badChar => "badchar" | .mixedCase => "mixedcase" | .badSeparator => "badseparator"
  | .badHrpChar => "badhrpchar" | .badDataChar => "baddatachar" | .badChecksum => "badchecksum"
  | .badRange => "badrange" | .badPaddingIllegal => "badpaddingillegal"
  | .badPaddingNonZero => "badpaddingnonzero" | .badHrpEmpty => "badhrpempty" | .indexPanic => "indexpanic"

def pair : Except Keys.Err (Bytes × Bytes) → String
  | .ok (a, b) => s!"ok {sum a} {sum b}"
  | .error _ => "err"

def key : Except Keys.Err Bytes → String
  | .ok k => s!"ok {sum k}"
  | .error _ => "err"

def command (c : Client) : String :=
  match openClientCommand c with
  | .ok p => sum p
  | .error _ => "sep"

def client : Except Keys.Err Client → String
  | .ok c => s!"ok {sum c.name} {sum c.encoding}"
  | .error _ => "err"

def cli : Except Keys.Err CliValue → String
  | .ok (.plugin c) => s!"plugin {sum c.name} {command c}"
  | .ok (.x25519Recipient k) => s!"x25519 {sum k}"
  | .ok (.x25519Identity k) => s!"x25519 {sum k}"
  | .ok .ssh => "ssh"
  | .error _ => "err"

def un1 (args : List String) (f : Bytes → String) : String :=
  match args with
  | [a] => match unhex a with
    | some a => f a
    | none => "bad-args"
  | _ => "bad-arity"

def un2 (args : List String) (f : Bytes → Bytes → String) : String :=
  match args with
  | [a, b] => match unhex a, unhex b with
    | some a, some b => f a b
    | _, _ => "bad-args"
  | _ => "bad-arity"

def handle (op : String) (args : List String) : Option String :=
  match op with
  | "b32enc" => some <| un2 args fun hrp data =>
      match AgeModel.Bech32.encode hrp data with
      | .ok s => s!"ok {sum s}"
      | .error _ => "err"
  | "b32dec" => some <| un1 args fun s =>
      match AgeModel.Bech32.decode s with
      | .ok (hrp, data) => s!"ok {sum hrp} {sum data}"
      | .error _ => "err"
  | "b32decx" => some <| un1 args fun s =>
      match AgeModel.Bech32.decode s with
      | .ok (hrp, data) => s!"ok {sum hrp} {sum data}"
      | .error e => s!"err:{errClass e}"
  | "xrec" => some <| un1 args fun s => key (parseX25519Recipient s)
  | "xid" => some <| un1 args fun s => key (parseX25519Identity s)
  | "xrecstr" => some <| un1 args fun k => sum (recipientString k)
  | "xidstr" => some <| un1 args fun k => sum (identityString k)
  | "prec" => some <| un1 args fun s => pair (parseRecipient s)
  | "pid" => some <| un1 args fun s => pair (parseIdentity s)
  | "pencrec" => some <| un2 args fun n d => sum (encodeRecipient n d)
  | "pencid" => some <| un2 args fun n d => sum (encodeIdentity n d)
  | "nrec" => some <| un1 args fun s => client (newRecipient s)
  | "nid" => some <| un1 args fun s => client (newIdentity s)
  | "pidnodata" => some <| un1 args fun n => client (newIdentityWithoutData n)
  | "pexec" => some <| un1 args fun n => command { name := n, encoding := [] }
  | "clirec" => some <| un1 args fun s => cli (cliParseRecipient s)
  | "cliid" => some <| un1 args fun s => cli (cliParseIdentity s)
  | "clij" => some <| un1 args fun s => cli (cliPluginFlag s)
  | "kconsts" => some (if constsOk then "ok" else "bad")
  | _ => none

end Bech32
end Exec
end AgeModel
