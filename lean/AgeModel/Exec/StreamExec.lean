/-
  Driver handlers for the STREAM model: `sw` (writer run), `sr` (reader run),
  `senc`/`sdec` (Spec).
-/
import AgeModel.Wire
import AgeModel.IO
namespace AgeModel
namespace Exec
open Stream Wire

def parseOps (s : String) : Option (List WOp) :=
  if s = "-" then some [] else
  (splitOn s ';').mapM fun t =>
    if t = "c" then some WOp.close
    else if t.startsWith "w:" then (unhex (t.drop 2).toString).map WOp.write
    else none

def stepTrace {S : DstSpec} (k : Bytes) (C : Nat) : Writer S → List WOp → List String → Writer S × List String
  | w, [], acc => (w, acc.reverse)
  | w, op :: ops, acc =>
    let (w', (n, e)) := w.step chacha C ctrLimit k op
    stepTrace k C w' ops (s!"{n},{optOutcome e},{w'.dst.acc.length}" :: acc)

def runWriter (S : DstSpec) (s0 : S.σ) (k : Bytes) (C : Nat) (ops : List WOp) : String :=
  let w0 : Writer S := Writer.new { acc := [], st := s0 }
  let (w, tr) := stepTrace k C w0 ops []
  s!"{";".intercalate tr} acc={sum w.dst.acc}"

/-- plan syntax: `ok` | `off:<L>:<partial>:<once>` | `call:<idx>:<n>` -/
def sw (args : List String) : String :=
  match args with
  | [key, c, plan, ops] =>
    match unhex key, nat? c, parseOps ops with
    | some k, some C, some ops =>
      match splitOn plan ':' with
      | ["ok"] => runWriter DstSpec.perfect () k C ops
      | ["off", l, p, o] =>
        match nat? l, bool? p, bool? o with
        | some l, some p, some o => runWriter (DstSpec.atOffset l p o) (false : Bool) k C ops
        | _, _, _ => "bad-plan"
      | ["call", i, n] =>
        match nat? i, nat? n with
        | some i, some n => runWriter (DstSpec.atCall i n) (0 : Nat) k C ops
        | _, _ => "bad-plan"
      | _ => "bad-plan"
    | _, _, _ => "bad-args"
  | _ => "bad-arity"

def sr (args : List String) : String :=
  match args with
  | [key, c, fail, ct, sizes] =>
    match unhex key, nat? c, bool? fail, unhex ct, (if sizes = "-" then some [] else (splitOn sizes ',').mapM nat?) with
    | some k, some C, some f, some ct, some sizes =>
      let r0 := Reader.new ⟨ct, f⟩
      let tr := r0.trace chacha C ctrLimit k sizes
      let all : Bytes := (tr.map (·.1)).flatten
      let steps := tr.map fun (b, e) => s!"{b.length},{optOutcome e}"
      -- also the final `taken` for look-ahead accounting
      let rfin := sizes.foldl (fun r n => (r.read chacha C ctrLimit k n).1) r0
      s!"{";".intercalate steps} out={sum all} taken={min rfin.taken ct.length}"
    | _, _, _, _, _ => "bad-args"
  | _ => "bad-arity"

def senc (args : List String) : String :=
  match args with
  | [key, c, pt] =>
    match unhex key, nat? c, unhex pt with
    | some k, some C, some pt => sum (encrypt chacha C k pt)
    | _, _, _ => "bad-args"
  | _ => "bad-arity"

/-- `sencz key C n`: the payload for `n` zero bytes (large payloads without shipping them over the wire) -/
def sencz (args : List String) : String :=
  match args with
  | [key, c, n] =>
    match unhex key, nat? c, nat? n with
    | some k, some C, some n => sum (encrypt chacha C k (List.replicate n 0))
    | _, _, _ => "bad-args"
  | _ => "bad-arity"

def sdec (args : List String) : String :=
  match args with
  | [key, c, ct] =>
    match unhex key, nat? c, unhex ct with
    | some k, some C, some ct =>
      let (out, o) := decrypt chacha C k ct
      s!"{outcome o} out={sum out}"
    | _, _, _ => "bad-args"
  | _ => "bad-arity"

/-- `rf <n1,n2,…> <piece;piece;…|-> <last> <fail>`: successive `io.ReadFull` calls of the given sizes on one source -/
def rf (args : List String) : String :=
  match args with
  | [ns, ps, last, fail] =>
    match (splitOn ns ',').mapM nat?, (if ps = "-" then some [] else (splitOn ps ';').mapM unhex), unhex last, bool? fail with
    | some ns, some ps, some last, some fail =>
      let statusName : IO.Status → String
        | .ok => "ok" | .eof => "eof" | .unexpectedEOF => "unexpected" | .err => "err"
      let rec go (ns : List Nat) (s : IO.Sched) (acc : List String) : List String :=
        match ns with
        | [] => acc.reverse
        | n :: rest =>
          let (out, st, s') := IO.readFull n s.fail [] s.pieces s.last
          go rest s' (s!"{statusName st}:{hexOrDash out}" :: acc)
      ";".intercalate (go ns ⟨ps, last, fail⟩ [])
    | _, _, _, _ => "bad-args"
  | _ => "bad-arity"

namespace Stream
def handle (op : String) (args : List String) : Option String :=
  match op with
  | "sw" => some (sw args)
  | "sr" => some (sr args)
  | "senc" => some (senc args)
  | "sencz" => some (sencz args)
  | "sdec" => some (sdec args)
  | "rf" => some (rf args)
  | _ => none
end Stream

end Exec
end AgeModel
