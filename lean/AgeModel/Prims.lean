/-
  AgeModel.Prims — the cryptographic primitives as a parameter of the model,
  and the hypothesis structures theorems may assume about them (Props, never
  axioms; shown inhabited in Proofs/ToyPrims.lean).
-/
import AgeModel.Laws
namespace AgeModel

structure Prims where
  aead : AEAD
  /-- HKDF-SHA256: input key material, salt, info, output length -/
  hkdf : Bytes → Bytes → Bytes → Nat → Bytes
  /-- HMAC-SHA256: key, message -/
  hmac : Bytes → Bytes → Bytes
  sha256 : Bytes → Bytes
  /-- X25519(scalar, point); `none` when x/crypto reports an error (all-zero output) -/
  x25519 : Bytes → Bytes → Option Bytes
  /-- the Curve25519 base point -/
  basepoint : Bytes
  /-- scrypt(password, salt, N = 2^logN, r = 8, p = 1, 32 bytes) -/
  scrypt : Bytes → Bytes → Nat → Bytes
  /-- RSA-OAEP-SHA256 encryption: public key, 32-byte seed, message, label -/
  oaepEnc : Bytes → Bytes → Bytes → Bytes → Option Bytes
  /-- RSA-OAEP-SHA256 decryption: private key, ciphertext, label -/
  oaepDec : Bytes → Bytes → Bytes → Option Bytes
  /-- "`priv` is the private key belonging to public key `pub`" -/
  rsaPair : Bytes → Bytes → Prop

/-- functional laws that are true of the real primitives -/
structure Prims.Correct (P : Prims) : Prop where
  aead : P.aead.Correct
  /-- Diffie–Hellman: both sides derive the same shared secret -/
  dh_comm : ∀ a b pa pb, P.x25519 a P.basepoint = some pa → P.x25519 b P.basepoint = some pb →
    P.x25519 a pb = P.x25519 b pa
  x25519_len : ∀ a b c, P.x25519 a b = some c → c.length = 32
  sha256_len : ∀ b, (P.sha256 b).length = 32
  hmac_len : ∀ k m, (P.hmac k m).length = 32
  /-- RSA: decrypting an encryption under the matching key returns the message -/
  oaep : ∀ pub priv, P.rsaPair pub priv → ∀ seed m l c, P.oaepEnc pub seed m l = some c → P.oaepDec priv c l = some m

/-- the 12-byte all-zero nonce used for wrapping the file key -/
def zeroNonce : Bytes := List.replicate 12 0

/-- `aeadEncrypt`: one-time key, fixed zero nonce -/
def Prims.wrapSeal (P : Prims) (key pt : Bytes) : Bytes := P.aead.sealF key zeroNonce pt
def Prims.wrapOpen (P : Prims) (key ct : Bytes) : Option Bytes := P.aead.openF key zeroNonce ct

end AgeModel
