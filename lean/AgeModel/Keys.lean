/-
  AgeModel.Keys — the textual key formats built on Bech32:

    x25519.go          ParseX25519Recipient / ParseX25519Identity / String()
    plugin/encode.go   EncodeIdentity / ParseIdentity / EncodeRecipient / ParseRecipient / validPluginName
    plugin/client.go   NewRecipient / NewIdentity / NewIdentityWithoutData (name and validation logic
                       only) and the command `openClientConnection` starts
    cmd/age/parse.go   parseRecipient / parseIdentity: which prefix routes to which parser

  Strings are byte lists (see AgeModel/Bech32.lean for why that is exact below
  `bech32.Decode`).  The functions here that see *arbitrary* strings before any
  ASCII check are `validPluginName` (through `NewIdentityWithoutData` and
  `EncodeIdentity/EncodeRecipient`) and the `strings.HasPrefix` / `strings.Count`
  tests of cmd/age/parse.go.  `validPluginName` ranges over runes and asks
  `strings.ContainsRune(allowed, r)` with an all-ASCII `allowed`: a byte ≥ 0x80
  belongs to a rune ≥ 0x80 or decodes to U+FFFD, neither of which is in
  `allowed`, so "every byte is in `allowed`" is the exact byte-level statement.
  `HasPrefix` and `Count(arg, "1")` are byte-level operations in Go.
-/
import AgeModel.Bech32
namespace AgeModel
namespace Keys
open Bech32

inductive Err
  | bech32 (e : Bech32.Err)  -- bech32.Decode failed
  | badType                  -- HRP is not the expected one ("invalid type" / "unknown type" / "not a plugin …")
  | badLength                -- decoded key is not 32 bytes
  | badName                  -- validPluginName failed
  | unknownType              -- cmd/age: "unknown recipient type" / "unknown identity type"
  | github                   -- cmd/age: gitHubRecipientError
  | pathSeparator            -- openClientConnection: name contains os.PathSeparator
deriving DecidableEq, Repr, Inhabited

/-! ## string constants (as bytes; `Keys.constsOk` checks them against the literals) -/

/-- "age" -/
def hrpAge : Bytes := [0x61, 0x67, 0x65]
/-- "AGE-SECRET-KEY-" -/
def hrpSecret : Bytes := [0x41, 0x47, 0x45, 0x2d, 0x53, 0x45, 0x43, 0x52, 0x45, 0x54, 0x2d, 0x4b, 0x45, 0x59, 0x2d]
/-- "age1" -/
def pfxAge1 : Bytes := [0x61, 0x67, 0x65, 0x31]
/-- "AGE-PLUGIN-" -/
def pfxPlugin : Bytes := [0x41, 0x47, 0x45, 0x2d, 0x50, 0x4c, 0x55, 0x47, 0x49, 0x4e, 0x2d]
/-- "AGE-SECRET-KEY-1" -/
def pfxSecret1 : Bytes := hrpSecret ++ [0x31]
/-- "-" -/
def dash : Bytes := [0x2d]
/-- "ssh-" -/
def pfxSsh : Bytes := [0x73, 0x73, 0x68, 0x2d]
/-- "github:" -/
def pfxGithub : Bytes := [0x67, 0x69, 0x74, 0x68, 0x75, 0x62, 0x3a]
/-- "age-plugin-" -/
def pfxExec : Bytes := [0x61, 0x67, 0x65, 0x2d, 0x70, 0x6c, 0x75, 0x67, 0x69, 0x6e, 0x2d]
/-- "abcdefghijklmnopqrstuvwxyzABCDEFGHIJKLMNOPQRSTUVWXYZ0123456789+-._" -/
def allowed : Bytes :=
  [0x61, 0x62, 0x63, 0x64, 0x65, 0x66, 0x67, 0x68, 0x69, 0x6a, 0x6b, 0x6c, 0x6d, 0x6e, 0x6f, 0x70,
   0x71, 0x72, 0x73, 0x74, 0x75, 0x76, 0x77, 0x78, 0x79, 0x7a,
   0x41, 0x42, 0x43, 0x44, 0x45, 0x46, 0x47, 0x48, 0x49, 0x4a, 0x4b, 0x4c, 0x4d, 0x4e, 0x4f, 0x50,
   0x51, 0x52, 0x53, 0x54, 0x55, 0x56, 0x57, 0x58, 0x59, 0x5a,
   0x30, 0x31, 0x32, 0x33, 0x34, 0x35, 0x36, 0x37, 0x38, 0x39, 0x2b, 0x2d, 0x2e, 0x5f]

/-! ## package strings -/

def hasPrefix (s p : Bytes) : Bool := p.isPrefixOf s
def hasSuffix (s p : Bytes) : Bool := p.isSuffixOf s
def trimPrefix (s p : Bytes) : Bytes := if hasPrefix s p then s.drop p.length else s
def trimSuffix (s p : Bytes) : Bytes := if hasSuffix s p then s.take (s.length - p.length) else s
/-- `strings.Count(s, string(c))` for a single byte -/
def countByte (s : Bytes) (c : UInt8) : Nat := s.count c

/-! ## x25519.go -/

/-- `ParseX25519Recipient`: the 32-byte public key -/
def parseX25519Recipient (s : Bytes) : Except Err Bytes :=
  match decode s with
  | .error e => .error (.bech32 e)
  | .ok (t, k) =>
    if t ≠ hrpAge then .error .badType
    else if k.length ≠ 32 then .error .badLength      -- newX25519RecipientFromPoint
    else .ok k

/-- `ParseX25519Identity`: the 32-byte scalar -/
def parseX25519Identity (s : Bytes) : Except Err Bytes :=
  match decode s with
  | .error e => .error (.bech32 e)
  | .ok (t, k) =>
    if t ≠ hrpSecret then .error .badType
    else if k.length ≠ 32 then .error .badLength      -- newX25519IdentityFromScalar
    else .ok k

/-- `s, _ := bech32.Encode(…); return s` — the error is dropped, `s` is "" then -/
def encodeOrEmpty (hrp data : Bytes) : Bytes :=
  match encode hrp data with
  | .ok s => s
  | .error _ => []

/-- `(*X25519Recipient).String` -/
def recipientString (k : Bytes) : Bytes := encodeOrEmpty hrpAge k

/-- `(*X25519Identity).String`: `strings.ToUpper` of the encoding -/
def identityString (k : Bytes) : Bytes := toUpper (encodeOrEmpty hrpSecret k)

/-! ## plugin/encode.go -/

def validPluginName (name : Bytes) : Bool :=
  if name = [] then false else name.all fun r => allowed.contains r

def encodeIdentity (name data : Bytes) : Bytes :=
  if !validPluginName name then [] else encodeOrEmpty (pfxPlugin ++ toUpper name ++ dash) data

def parseIdentity (s : Bytes) : Except Err (Bytes × Bytes) :=
  match decode s with
  | .error e => .error (.bech32 e)
  | .ok (hrp, data) =>
    if !hasPrefix hrp pfxPlugin || !hasSuffix hrp dash then .error .badType
    else
      let name := trimSuffix (trimPrefix hrp pfxPlugin) dash
      let name := toLower name
      if !validPluginName name then .error .badName
      else .ok (name, data)

def encodeRecipient (name data : Bytes) : Bytes :=
  if !validPluginName name then [] else encodeOrEmpty (pfxAge1 ++ toLower name) data

def parseRecipient (s : Bytes) : Except Err (Bytes × Bytes) :=
  match decode s with
  | .error e => .error (.bech32 e)
  | .ok (hrp, data) =>
    if !hasPrefix hrp pfxAge1 then .error .badType
    else
      let name := trimPrefix hrp pfxAge1
      if !validPluginName name then .error .badName
      else .ok (name, data)

/-! ## plugin/client.go — what a client value is made of -/

/-- the fields of `plugin.Recipient` / `plugin.Identity` that decide what is run
    and what is sent to it -/
structure Client where
  name : Bytes
  encoding : Bytes
deriving DecidableEq, Repr

def newRecipient (s : Bytes) : Except Err Client :=
  match parseRecipient s with
  | .error e => .error e
  | .ok (name, _) => .ok { name := name, encoding := s }

def newIdentity (s : Bytes) : Except Err Client :=
  match parseIdentity s with
  | .error e => .error e
  | .ok (name, _) => .ok { name := name, encoding := s }

def newIdentityWithoutData (name : Bytes) : Except Err Client :=
  let s := encodeIdentity name []
  if s = [] then .error .badName
  else .ok { name := name, encoding := s }

/-- `path := "age-plugin-" + name` -/
def execPath (name : Bytes) : Bytes := pfxExec ++ name

/-- the first argument of `exec.Command` in `openClientConnection` (with
    `testOnlyPluginPath == ""`, as in every non-test build), or the error
    returned before any process is created.  os.PathSeparator is '/' here. -/
def openClientCommand (c : Client) : Except Err Bytes :=
  if c.name.contains 0x2f then .error .pathSeparator else .ok (execPath c.name)

/-! ## cmd/age/parse.go -/

inductive CliValue
  | x25519Recipient (key : Bytes)
  | x25519Identity (key : Bytes)
  | plugin (c : Client)
  | ssh                       -- agessh.ParseRecipient is consulted (not modelled here; never a plugin value)
deriving DecidableEq, Repr

def cliParseRecipient (arg : Bytes) : Except Err CliValue :=
  if hasPrefix arg pfxAge1 && countByte arg 0x31 > 1 then
    match newRecipient arg with
    | .error e => .error e
    | .ok c => .ok (.plugin c)
  else if hasPrefix arg pfxAge1 then
    match parseX25519Recipient arg with
    | .error e => .error e
    | .ok k => .ok (.x25519Recipient k)
  else if hasPrefix arg pfxSsh then .ok .ssh
  else if hasPrefix arg pfxGithub then .error .github
  else .error .unknownType

def cliParseIdentity (s : Bytes) : Except Err CliValue :=
  if hasPrefix s pfxPlugin then
    match newIdentity s with
    | .error e => .error e
    | .ok c => .ok (.plugin c)
  else if hasPrefix s pfxSecret1 then
    match parseX25519Identity s with
    | .error e => .error e
    | .ok k => .ok (.x25519Identity k)
  else .error .unknownType

/-- `-j NAME` (cmd/age/age.go): `plugin.NewIdentityWithoutData(f.Value, …)` -/
def cliPluginFlag (name : Bytes) : Except Err CliValue :=
  match newIdentityWithoutData name with
  | .error e => .error e
  | .ok c => .ok (.plugin c)

/-- run-time check of the byte constants against the string literals (asked by
    the harness through the driver op `kconsts`; `String.toUTF8` does not reduce
    in the kernel, so this is not a theorem) -/
def constsOk : Bool :=
  hrpAge = str "age" && hrpSecret = str "AGE-SECRET-KEY-" && pfxAge1 = str "age1" &&
  pfxPlugin = str "AGE-PLUGIN-" && pfxSecret1 = str "AGE-SECRET-KEY-1" && dash = str "-" &&
  pfxSsh = str "ssh-" && pfxGithub = str "github:" && pfxExec = str "age-plugin-" &&
  allowed = str "abcdefghijklmnopqrstuvwxyzABCDEFGHIJKLMNOPQRSTUVWXYZ0123456789+-._" &&
  Bech32.charset = str "qpzry9x8gf2tvdw0s3jn54khce6mua7l"

end Keys
end AgeModel
