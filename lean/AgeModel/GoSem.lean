/-
  AgeModel.GoSem — the meaning of the fragment of Go that `harness/cmd/extract`
  (funcs.go) translates into `AgeModel/Extracted/Funcs.lean`.

  The translator is syntax-directed and tiny; everything semantic lives here,
  written by hand, so that it can be read against the Go specification:

  * integers: `byte`/`uint8` ↦ `UInt8`, `uint32` ↦ `UInt32` (both wrap, as in Go);
    `int`, `rune`, `int64` ↦ `Int` (UNBOUNDED: the translated functions only use
    them as indices, lengths and code points, far below 2^31; overflow of `int`
    is not modelled — part of the trusted base);
  * `string`, `[]byte`, `[N]byte` ↦ `List UInt8`, `[]T` ↦ `List T` (VALUES: the
    translator refuses functions in which slice aliasing could be observed);
  * run-time panics are explicit: indexing, slicing, negative shift counts,
    `panic(…)` calls are `Except.error` outcomes of the monad `M`;
  * every loop becomes a structurally recursive function over the list it
    ranges over (or over explicit fuel for `for cond {…}`), returning `Loop`;
  * Go `error` values made by `fmt.Errorf` / `errors.New` are identified by
    their creation SITE (function, k-th such call in it, in source order):
    message texts carry no meaning here;
  * the standard-library functions the translated code calls (`strings.*`,
    ranging over the runes of a string) are MODELLED below, exactly on the
    inputs where that is feasible (ASCII) and as `opaque` constants elsewhere,
    so that no theorem can depend on behaviour that is not written down.
-/
import AgeModel.Basic
namespace AgeModel
namespace Go

inductive Fault
  | panic (site : Nat)   -- an explicit `panic(…)`; sites numbered in source order within the function
  | index                -- index or slice bounds out of range
  | shift                -- negative shift count
  | fuel                 -- the fuel handed to a `for cond {…}` loop ran out: NOT a Go behaviour
  | alias                -- an append would have left the array a view looks into (Go allocates): outside what
                         -- views model; NOT a Go behaviour — a tie theorem must show it unreachable
deriving DecidableEq, Repr

abbrev M := Except Fault

/-- how a loop ended -/
inductive Loop (σ ρ : Type)
  | next (s : σ)         -- ran to completion or left by `break`; `s` = the variables it assigns
  | ret (v : ρ)          -- a `return` inside the loop

/-- a Go `error` value created in translated code -/
structure Err where
  fn : String            -- "package.function" that created the value
  site : Nat             -- k-th `fmt.Errorf` / `errors.New` call of that function, in source order
  ints : List Int        -- the integer arguments of that call (line numbers), for the functions where they are
                         -- observable behaviour; `[]` elsewhere
deriving DecidableEq, Repr

/-! ## indexing, slicing -/

def len {α : Type} (a : List α) : Int := Int.ofNat a.length

def idx {α : Type} (a : List α) (i : Int) : M α :=
  if i < 0 then .error .index
  else match a[i.toNat]? with
    | some v => .ok v
    | none => .error .index

def set {α : Type} (a : List α) (i : Int) (v : α) : M (List α) :=
  if 0 ≤ i ∧ i.toNat < a.length then .ok (a.set i.toNat v) else .error .index

/-- `a[lo:hi]` (bounds against the LENGTH; the translator refuses slicing beyond it) -/
def slice {α : Type} (a : List α) (lo hi : Int) : M (List α) :=
  if 0 ≤ lo ∧ lo ≤ hi ∧ hi ≤ Int.ofNat a.length then .ok ((a.take hi.toNat).drop lo.toNat) else .error .index

/-- `make([]T, n)` -/
def makeList {α : Type} (zero : α) (n : Int) : M (List α) :=
  if n < 0 then .error .index else .ok (List.replicate n.toNat zero)

/-- the values `a, a+1, …, b-1` of `for i := a; i < b; i++` -/
def rangeUp (a b : Int) : List Int := (List.range (b - a).toNat).map fun k => a + Int.ofNat k

/-- the values `a, a-1, …, b` of `for i := a; i >= b; i--` -/
def rangeDown (a b : Int) : List Int := (List.range (a - b + 1).toNat).map fun k => a - Int.ofNat k

/-! ## integer operations that differ from Lean's -/

def shiftCount (i : Int) : M Nat := if i < 0 then .error .shift else .ok i.toNat

/-- Go's `x << n` on `uint8`: bits shifted out are lost, `n ≥ 8` gives 0 -/
def shlU8 (x : UInt8) (n : Nat) : UInt8 := UInt8.ofNat ((x.toNat <<< n) % 256)
def shrU8 (x : UInt8) (n : Nat) : UInt8 := UInt8.ofNat (x.toNat >>> n)
def shlU32 (x : UInt32) (n : Nat) : UInt32 := UInt32.ofNat ((x.toNat <<< n) % 4294967296)
def shrU32 (x : UInt32) (n : Nat) : UInt32 := UInt32.ofNat (x.toNat >>> n)

/-- `byte(i)` for an `int`/`rune` value: low eight bits (two's complement) -/
def intToU8 (i : Int) : UInt8 := UInt8.ofNat (i.emod 256).toNat
def intToU32 (i : Int) : UInt32 := UInt32.ofNat (i.emod 4294967296).toNat
def u8ToInt (x : UInt8) : Int := Int.ofNat x.toNat
def u32ToInt (x : UInt32) : Int := Int.ofNat x.toNat

/-! ## runes of a string (`for i, c := range s`, utf8.DecodeRuneInString) -/

def isCont (b : UInt8) : Bool := 0x80 ≤ b && b ≤ 0xBF

/-- first rune of a non-empty byte string and its width; `(0xFFFD, 1)` for
    anything that is not a valid, shortest-form, non-surrogate encoding -/
def decodeRune : List UInt8 → Int × Nat
  | [] => (0xFFFD, 1)
  | b0 :: rest =>
    let n0 := b0.toNat
    if n0 < 0x80 then (Int.ofNat n0, 1)
    else if n0 < 0xC2 then (0xFFFD, 1)
    else if n0 < 0xE0 then
      match rest with
      | b1 :: _ => if isCont b1 then (Int.ofNat ((n0 % 32) * 64 + b1.toNat % 64), 2) else (0xFFFD, 1)
      | _ => (0xFFFD, 1)
    else if n0 < 0xF0 then
      match rest with
      | b1 :: b2 :: _ =>
        let lo : Nat := if n0 = 0xE0 then 0xA0 else 0x80
        let hi : Nat := if n0 = 0xED then 0x9F else 0xBF
        if lo ≤ b1.toNat ∧ b1.toNat ≤ hi ∧ isCont b2 then
          (Int.ofNat ((n0 % 16) * 4096 + (b1.toNat % 64) * 64 + b2.toNat % 64), 3)
        else (0xFFFD, 1)
      | _ => (0xFFFD, 1)
    else if n0 < 0xF5 then
      match rest with
      | b1 :: b2 :: b3 :: _ =>
        let lo : Nat := if n0 = 0xF0 then 0x90 else 0x80
        let hi : Nat := if n0 = 0xF4 then 0x8F else 0xBF
        if lo ≤ b1.toNat ∧ b1.toNat ≤ hi ∧ isCont b2 ∧ isCont b3 then
          (Int.ofNat ((n0 % 8) * 262144 + (b1.toNat % 64) * 4096 + (b2.toNat % 64) * 64 + b3.toNat % 64), 4)
        else (0xFFFD, 1)
      | _ => (0xFFFD, 1)
    else (0xFFFD, 1)

/-- `(byte offset, rune)` pairs in the order `for i, c := range s` yields them -/
def runesFrom : Nat → Nat → List UInt8 → List (Int × Int)
  | 0, _, _ => []
  | _ + 1, _, [] => []
  | fuel + 1, off, b :: rest =>
    let d := decodeRune (b :: rest)
    (Int.ofNat off, d.1) :: runesFrom fuel (off + d.2) ((b :: rest).drop d.2)

def runes (s : List UInt8) : List (Int × Int) := runesFrom s.length 0 s

/-! ## package strings -/

def isAscii (s : List UInt8) : Bool := s.all fun b => b < 0x80

def lowerByte (c : UInt8) : UInt8 := if 65 ≤ c ∧ c ≤ 90 then c + 32 else c
def upperByte (c : UInt8) : UInt8 := if 97 ≤ c ∧ c ≤ 122 then c - 32 else c

/-- Unicode case mapping of a string with non-ASCII bytes: not modelled -/
opaque unicodeToLower : List UInt8 → List UInt8
opaque unicodeToUpper : List UInt8 → List UInt8
/-- `strings.IndexRune` beyond ASCII needles in a non-ASCII haystack: not modelled -/
opaque unicodeIndexRune : List UInt8 → Int → Int

def strings_ToLower (s : List UInt8) : List UInt8 := if isAscii s then s.map lowerByte else unicodeToLower s
def strings_ToUpper (s : List UInt8) : List UInt8 := if isAscii s then s.map upperByte else unicodeToUpper s

/-- index of the first element satisfying `p`, as Go's `int` (-1 if none) -/
def findIdxInt {α : Type} (p : α → Bool) : List α → Int
  | [] => -1
  | x :: xs => if p x then 0 else
    let r := findIdxInt p xs
    if r < 0 then -1 else r + 1

/-- `strings.IndexRune(s, r)`: a byte search for an ASCII rune; in an ASCII-only
    haystack no other rune (valid, invalid or U+FFFD) can occur, so the answer is -1 -/
def strings_IndexRune (s : List UInt8) (r : Int) : Int :=
  if 0 ≤ r ∧ r < 0x80 then findIdxInt (fun b => Int.ofNat b.toNat == r) s
  else if isAscii s then -1
  else unicodeIndexRune s r

def strings_ContainsRune (s : List UInt8) (r : Int) : Bool := decide (strings_IndexRune s r ≥ 0)

def strings_HasPrefix (s p : List UInt8) : Bool := p.isPrefixOf s
def strings_HasSuffix (s p : List UInt8) : Bool := p.isSuffixOf s
def strings_TrimPrefix (s p : List UInt8) : List UInt8 := if p.isPrefixOf s then s.drop p.length else s
def strings_TrimSuffix (s p : List UInt8) : List UInt8 := if p.isSuffixOf s then s.take (s.length - p.length) else s

/-- `strings.Join` -/
def strings_Join : List (List UInt8) → List UInt8 → List UInt8
  | [], _ => []
  | [a], _ => a
  | a :: rest, sep => a ++ sep ++ strings_Join rest sep

/-- non-overlapping occurrences of a non-empty `sep`, left to right -/
def countFrom (sep : List UInt8) : Nat → List UInt8 → Nat
  | 0, _ => 0
  | _ + 1, [] => 0
  | fuel + 1, x :: xs =>
    if sep.isPrefixOf (x :: xs) then 1 + countFrom sep fuel ((x :: xs).drop sep.length) else countFrom sep fuel xs

/-- `strings.Count(s, sep)`: non-overlapping instances; for an empty `sep`, the number of runes + 1 -/
def strings_Count (s sep : List UInt8) : Int :=
  if sep = [] then Int.ofNat ((runes s).length + 1) else Int.ofNat (countFrom sep (s.length + 1) s)

/-- `strings.LastIndex(s, sep)` for a non-empty `sep` (the translator only passes constants) -/
def lastIndexFrom (sep : List UInt8) : Nat → List UInt8 → Int
  | _, [] => -1
  | off, x :: xs =>
    let r := lastIndexFrom sep (off + 1) xs
    if r ≥ 0 then r else if sep.isPrefixOf (x :: xs) then Int.ofNat off else -1

def strings_LastIndex (s sep : List UInt8) : Int :=
  if sep = [] then Int.ofNat s.length else lastIndexFrom sep 0 s

/-- `strings.Split(s, sep)` for a ONE-BYTE separator -/
def splitByte (c : UInt8) : List UInt8 → List UInt8 → List (List UInt8)
  | acc, [] => [acc.reverse]
  | acc, x :: xs => if x = c then acc.reverse :: splitByte c [] xs else splitByte c (x :: acc) xs

def strings_Split1 (s : List UInt8) (c : UInt8) : List (List UInt8) := splitByte c [] s

/-! ## `int` shifts, strconv.Atoi, regexp (a subset) -/

/-- `x << n` on `int` (no wrap at 64 bits: see the header) -/
def shlInt (x : Int) (n : Nat) : Int := x * (2 : Int) ^ n

def isDigit (c : UInt8) : Bool := 48 ≤ c && c ≤ 57

def digitsVal (ds : List UInt8) : Nat := ds.foldl (fun acc c => acc * 10 + (c.toNat - 48)) 0

/-- `strconv.Atoi`: optional sign, decimal digits only; the value and nil, or 0 and a syntax
    error, or the nearest `int64` bound and a range error -/
def strconv_Atoi (s : List UInt8) : Int × Option Err :=
  let neg := s.head? == some 45
  let ds := if s.head? == some 43 || s.head? == some 45 then s.drop 1 else s
  if ds.isEmpty || !ds.all isDigit then (0, some ⟨"strconv.Atoi", 0, []⟩)
  else
    let v : Int := if neg then -(Int.ofNat (digitsVal ds)) else Int.ofNat (digitsVal ds)
    if v > 9223372036854775807 then (9223372036854775807, some ⟨"strconv.Atoi", 1, []⟩)
    else if v < -9223372036854775808 then (-9223372036854775808, some ⟨"strconv.Atoi", 1, []⟩)
    else (v, none)

/-- one element of a pattern: a set of bytes (inclusive ranges), possibly starred -/
structure ReItem where
  ranges : List (UInt8 × UInt8)
  star : Bool

def ReItem.has (it : ReItem) (c : UInt8) : Bool := it.ranges.any fun r => r.1 ≤ c && c ≤ r.2

/-- bytes that have a meaning of their own in a pattern: a pattern using one outside the
    supported positions is not given a meaning here -/
def reMeta (c : UInt8) : Bool := [92, 46, 43, 63, 40, 41, 124, 123, 125, 42, 91, 93, 94, 36].contains c

/-- the inside of a `[...]` class made of single bytes and `a-b` ranges (no negation, no escapes) -/
def reClass : List UInt8 → Option (List (UInt8 × UInt8))
  | [] => some []
  | a :: 45 :: b :: rest => if reMeta a || reMeta b then none else (reClass rest).map ((a, b) :: ·)
  | a :: rest => if reMeta a || a = 45 then none else (reClass rest).map ((a, a) :: ·)

/-- split at the first `]` -/
def reUntilClose : List UInt8 → Option (List UInt8 × List UInt8)
  | [] => none
  | 93 :: rest => some ([], rest)
  | c :: rest => (reUntilClose rest).map fun p => (c :: p.1, p.2)

/-- items of a pattern body (between the anchors): literals and classes, each optionally starred -/
def reItems : Nat → List UInt8 → Option (List ReItem)
  | 0, _ => none
  | _ + 1, [] => some []
  | fuel + 1, 91 :: rest =>
    match reUntilClose rest with
    | none => none
    | some (cls, after) =>
      match reClass cls with
      | none => none
      | some rs =>
        match after with
        | 42 :: after' => (reItems fuel after').map (⟨rs, true⟩ :: ·)
        | _ => (reItems fuel after).map (⟨rs, false⟩ :: ·)
  | fuel + 1, c :: rest =>
    if reMeta c then none
    else match rest with
      | 42 :: rest' => (reItems fuel rest').map (⟨[(c, c)], true⟩ :: ·)
      | _ => (reItems fuel rest).map (⟨[(c, c)], false⟩ :: ·)

/-- does `s` match the items from its start (`toEnd`: and up to its end)? -/
def reMatchHere (toEnd : Bool) : List ReItem → List UInt8 → Bool
  | [], s => if toEnd then s.isEmpty else true
  | it :: is, s =>
    if it.star then
      reMatchHere toEnd is s ||
        (match s with
         | c :: s' => it.has c && reMatchHere toEnd (it :: is) s'
         | [] => false)
    else
      match s with
      | c :: s' => it.has c && reMatchHere toEnd is s'
      | [] => false
termination_by is s => (s.length, is.length)

/-- patterns outside the subset: not given a meaning -/
opaque regexpUnsupported : List UInt8 → List UInt8 → Bool

/-- `regexp.MustCompile(pat).MatchString(s)` for `^ITEMS$` patterns, ITEMS being literals and
    simple classes, each optionally followed by `*` (the only kind the translated code uses) -/
def regexp_MatchString (pat s : List UInt8) : Bool :=
  match pat with
  | 94 :: body =>
    if body.getLast? == some 36 then
      match reItems (body.length + 1) body.dropLast with
      | some items => reMatchHere true items s
      | none => regexpUnsupported pat s
    else regexpUnsupported pat s
  | _ => regexpUnsupported pat s

/-! ## bytes, bufio.Reader

A `*bufio.Reader` over a source that delivers `input` and then ends cleanly is the
bytes it has not handed out yet; reading returns what Go returns together with the
reader's new state. (Buffer sizes do not show: `ReadBytes` grows its result as needed;
`Peek(n)` for `n` beyond the buffer size is not used by the translated code.) -/

def bytes_Equal (a b : List UInt8) : Bool := a == b

/-- the end of the input: `io.EOF` -/
def ioEOF : Option Err := some ⟨"io.EOF", 0, []⟩

/-- split after the first `delim` -/
def cutAfter (delim : UInt8) : List UInt8 → Option (List UInt8 × List UInt8)
  | [] => none
  | c :: cs =>
    if c = delim then some ([c], cs)
    else match cutAfter delim cs with
      | some (l, r) => some (c :: l, r)
      | none => none

/-- `rd.ReadBytes(delim)` / `rd.ReadString(delim)`: (data including the delimiter, nil, rest), or
    (all that was left, io.EOF, nothing) when the delimiter never comes -/
def bufio_ReadBytes (rd : List UInt8) (delim : UInt8) : List UInt8 × Option Err × List UInt8 :=
  match cutAfter delim rd with
  | some (l, r) => (l, none, r)
  | none => (rd, ioEOF, [])

/-- `rd.Peek(n)`: the next `n` bytes without consuming them, or what is left and io.EOF -/
def bufio_Peek (rd : List UInt8) (n : Int) : List UInt8 × Option Err :=
  if n.toNat ≤ rd.length then (rd.take n.toNat, none) else (rd, ioEOF)

/-! ## views (slices that alias an array field), io.Reader sources that may fail

A VIEW is a window `base[lo:hi]` into an array owned by a struct (extract/funcs_views.go).
`reslice` is Go's `v[a:b]` on it: the capacity reaches to the end of the base array. -/

def reslice (lo cap a b : Int) : M (Int × Int) :=
  if 0 ≤ a ∧ a ≤ b ∧ lo + b ≤ cap then .ok (lo + a, lo + b) else .error .index

/-- `copy(base[at:], data)` for data that fits -/
def writeAt (base : List UInt8) (at_ : Int) (data : List UInt8) : List UInt8 :=
  base.take at_.toNat ++ data ++ base.drop (at_.toNat + data.length)

/-- an `io.Reader`: the bytes it will deliver, and whether what comes after them is a clean end
    or an error. (How a real reader cuts its deliveries into pieces, and a reader that returns
    data together with its end, are not expressible here: the model's IO layer and the
    correspondence deal with them.) -/
structure Src where
  data : List UInt8
  fail : Bool

def io_EOF : Option Err := some ⟨"io.EOF", 0, []⟩
def io_ErrUnexpectedEOF : Option Err := some ⟨"io.ErrUnexpectedEOF", 0, []⟩
/-- the source's own error -/
def io_srcErr : Option Err := some ⟨"source", 0, []⟩

/-- `io.ReadFull(src, buf)` with `len(buf) = n`: (bytes read, error, source afterwards) -/
def io_ReadFull (s : Src) (n : Int) : List UInt8 × Option Err × Src :=
  let got := s.data.take n.toNat
  let rest : Src := ⟨s.data.drop n.toNat, s.fail⟩
  if got.length = n.toNat then (got, none, rest)
  else if s.fail then (got, io_srcErr, rest)
  else if got.length = 0 then (got, io_EOF, rest)
  else (got, io_ErrUnexpectedEOF, rest)

/-- `io.ReadFull` from a source that is just its bytes (it ends cleanly) -/
def io_ReadFullB (s : List UInt8) (n : Int) : List UInt8 × Option Err × List UInt8 :=
  let got := s.take n.toNat
  if got.length = n.toNat then (got, none, s.drop n.toNat)
  else if got.length = 0 then (got, io_EOF, [])
  else (got, io_ErrUnexpectedEOF, [])

/-- one `Read` into a buffer of `n ≥ 1` bytes: data if any is left, else the end -/
def io_Read (s : Src) (n : Int) : List UInt8 × Option Err × Src :=
  match s.data with
  | [] => ([], if s.fail then io_srcErr else io_EOF, s)
  | _ => (s.data.take n.toNat, none, ⟨s.data.drop n.toNat, s.fail⟩)

/-! ## strconv.Itoa, hex.EncodeToString -/

def natDigits : Nat → Nat → List UInt8
  | 0, _ => []
  | fuel + 1, n => if n < 10 then [(48 + n).toUInt8] else natDigits fuel (n / 10) ++ [(48 + n % 10).toUInt8]

/-- `strconv.Itoa` -/
def strconv_Itoa (i : Int) : List UInt8 :=
  if i < 0 then 45 :: natDigits (i.natAbs + 1) i.natAbs else natDigits (i.toNat + 1) i.toNat

def hexDigitLower (n : Nat) : UInt8 := if n < 10 then (48 + n).toUInt8 else (87 + n).toUInt8

/-- `hex.EncodeToString`: two lower-case digits per byte -/
def hex_EncodeToString (b : List UInt8) : List UInt8 :=
  b.flatMap fun x => [hexDigitLower (x.toNat / 16), hexDigitLower (x.toNat % 16)]

/-! ## sort.Strings: Go strings compare bytewise -/

def bytesLe : List UInt8 → List UInt8 → Bool
  | [], _ => true
  | _ :: _, [] => false
  | a :: as, b :: bs => if a < b then true else if b < a then false else bytesLe as bs

def insertSorted (x : List UInt8) : List (List UInt8) → List (List UInt8)
  | [] => [x]
  | y :: ys => if bytesLe x y then x :: y :: ys else y :: insertSorted x ys

/-- `sort.Strings` (as a function: the sorted slice) -/
def sort_Strings : List (List UInt8) → List (List UInt8)
  | [] => []
  | x :: xs => insertSorted x (sort_Strings xs)

/-! ## io.LimitReader, bufio.Scanner (default split function ScanLines, default buffer)

A source of bytes (`io.Reader`) is the byte string it delivers before a clean
end; read errors of the source are not modelled. `bufio.Scanner`, transcribed:
tokens are the `\n`-terminated lines without the terminator and without ONE
trailing `\r`; a final unterminated non-empty remainder is a token; a raw line of
`maxScanTokenSize` bytes or more does not fit the buffer: scanning stops there
and `Err()` is non-nil afterwards. -/

def io_LimitReader (src : List UInt8) (n : Int) : List UInt8 := src.take n.toNat

/-- `io.ReadAll(io.LimitReader(rd, n))` on a reader that is the bytes it will deliver: at most
    `n` bytes are consumed and returned; such a reader ends cleanly, so the error is nil -/
def io_ReadAllLimit (rd : List UInt8) (n : Int) : List UInt8 × Option Err × List UInt8 :=
  (rd.take n.toNat, none, rd.drop n.toNat)

def io_ErrShortWrite : Option Err := some ⟨"io.ErrShortWrite", 0, []⟩

/-- `(*bytes.Buffer).WriteTo(w)` on a buffer that is its unread bytes: nothing is written when it is
    empty; otherwise ONE `w.Write` of all of it; a count above what was offered panics; an error is
    passed on with the buffer advanced by the count; a short count without error is
    io.ErrShortWrite; on success the buffer is reset. (count, error, buffer, destination) -/
def buffer_WriteTo {δ : Type} (write : δ → List UInt8 → M (Int × Option Err × δ)) (buf : List UInt8) (d : δ) :
    M (Int × Option Err × List UInt8 × δ) :=
  if buf.isEmpty then .ok (0, none, [], d)
  else do
    let r ← write d buf
    if r.1 > len buf || r.1 < 0 then throw (.panic 1000)
    if r.2.1 != none then return (r.1, r.2.1, buf.drop r.1.toNat, r.2.2)
    if r.1 != len buf then return (r.1, io_ErrShortWrite, buf.drop r.1.toNat, r.2.2)
    return (r.1, none, [], r.2.2)

/-- `binary.BigEndian.Uint16(b)`: the first two bytes, big end first; fewer than two bytes: index out of range -/
def binary_BigEndian_Uint16 : List UInt8 → M UInt16
  | b0 :: b1 :: _ => pure ((b0.toUInt16 <<< 8) ||| b1.toUInt16)
  | _ => throw .index

/-- `_, ok := err.(T)` for a struct type `T` of the module used as an error: errors of such a type carry the type's name -/
def errIsType (e : Option Err) (name : String) : Bool :=
  match e with
  | some x => x.fn == name
  | none => false

/-- `out, err := aead.Open(nil, …)`: on failure Go's AEADs return nil together with the error -/
def nilOnErr (r : List UInt8 × Option Err) : List UInt8 × Option Err := (if r.2 == none then r.1 else [], r.2)

/-- a slice value stored where nil and empty are told apart (a nilable field): nil exactly when empty -/
def nilIfEmpty {α : Type} (l : List α) : Option (List α) := if l.isEmpty then none else some l

/-- `unicode.IsSpace` -/
def unicode_IsSpace (r : Int) : Bool :=
  r == 9 || r == 10 || r == 11 || r == 12 || r == 13 || r == 32 || r == 0x85 || r == 0xA0 || r == 0x1680 ||
  (decide (0x2000 ≤ r) && decide (r ≤ 0x200A)) || r == 0x2028 || r == 0x2029 || r == 0x202F || r == 0x205F || r == 0x3000

/-- `len(bytes.TrimSpace(b)) == 0`: every rune of `b`, decoded left to right (an invalid byte is
    U+FFFD, which is not a space), is white space. (TrimSpace trims the right end by decoding
    backwards; a string is trimmed to nothing that way exactly when it is valid UTF-8 made of
    spaces, so the two directions agree on emptiness — compared with Go in suite C09.) -/
def bytes_allSpace (b : List UInt8) : Bool := (runes b).all fun p => unicode_IsSpace p.2

/-- `bytes.ContainsAny(b, chars)` for an ASCII `chars` -/
def bytes_ContainsAny (b chars : List UInt8) : Bool := b.any fun c => chars.contains c

def maxScanTokenSize : Nat := 65536

/-- raw lines; `cur` = the current line so far, most recent byte first -/
def rawLinesAux : List UInt8 → List UInt8 → List (List UInt8)
  | cur, [] => if cur = [] then [] else [cur.reverse]
  | cur, c :: cs => if c = 10 then cur.reverse :: rawLinesAux [] cs else rawLinesAux (c :: cur) cs

def dropCR (l : List UInt8) : List UInt8 := if l.getLast? = some 13 then l.dropLast else l

def tokensFrom : List (List UInt8) → List (List UInt8)
  | [] => []
  | r :: rs => if maxScanTokenSize ≤ r.length then [] else dropCR r :: tokensFrom rs

def tooLongIn : List (List UInt8) → Bool
  | [] => false
  | r :: rs => if maxScanTokenSize ≤ r.length then true else tooLongIn rs

/-- the tokens `for scanner.Scan() { … scanner.Text() … }` sees -/
def scanner_Tokens (input : List UInt8) : List (List UInt8) := tokensFrom (rawLinesAux [] input)

/-- `scanner.Err()` after the loop: `bufio.ErrTooLong` or nil -/
def scanner_Err (input : List UInt8) : Option Err :=
  if tooLongIn (rawLinesAux [] input) then some ⟨"bufio.Scanner", 0, []⟩ else none

end Go
end AgeModel
