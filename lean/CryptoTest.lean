import AgeModel.Crypto.All
/-
  Line-oriented test driver for AgeModel.Crypto, used by /verif/harness/cmd/primtest.

  Request:  `<op> <arg> <arg> ...`   one per line on stdin
    * byte-string args are lowercase/uppercase hex, `-` for the empty string
    * Nat args are decimal
    * RSA numbers (n, e, d) are hex big-endian byte strings
  Response: one line: hex of the result, `-` for an empty result, `none` for Option.none,
            or `error: ...` for a malformed request. stdout is flushed after every line.

  Extra op for measurements:  `bench <sha256|aeadSeal|aeadOpen|scrypt|x25519> <size-or-logN> <iters>`
  prints `ms=<elapsed milliseconds for all iters>`. A trailing `hot` reuses one input list for
  all iterations (cache-warm) instead of a fresh list per iteration.
-/
open AgeModel.Crypto

def parseBytes (s : String) : Option Bytes := if s == "-" then some [] else unhex s
def parseNatBE (s : String) : Option Nat := (parseBytes s).map natOfBe
def showBytes (b : Bytes) : String := if b.isEmpty then "-" else hex b
def showOpt : Option Bytes → String
  | none => "none"
  | some b => showBytes b

def runOp (op : String) (args : List String) : Option String :=
  match op, args with
  | "sha256", [a] => do pure (showBytes (sha256 (← parseBytes a)))
  | "sha512", [a] => do pure (showBytes (sha512 (← parseBytes a)))
  | "hmacSha256", [k, m] => do pure (showBytes (hmacSha256 (← parseBytes k) (← parseBytes m)))
  | "hkdfSha256", [ikm, salt, info, len] => do
      pure (showBytes (hkdfSha256 (← parseBytes ikm) (← parseBytes salt) (← parseBytes info) (← len.toNat?)))
  | "aeadSeal", [k, n, pt] => do pure (showBytes (aeadSeal (← parseBytes k) (← parseBytes n) (← parseBytes pt)))
  | "aeadOpen", [k, n, ct] => do pure (showOpt (aeadOpen (← parseBytes k) (← parseBytes n) (← parseBytes ct)))
  | "x25519", [s, p] => do pure (showOpt (x25519 (← parseBytes s) (← parseBytes p)))
  | "x25519Base", [s] => do pure (showBytes (x25519Base (← parseBytes s)))
  | "pbkdf2Sha256", [pw, salt, iter, dk] => do
      pure (showBytes (pbkdf2Sha256 (← parseBytes pw) (← parseBytes salt) (← iter.toNat?) (← dk.toNat?)))
  | "scrypt", [pw, salt, logN, r, p, dk] => do
      pure (showBytes (scrypt (← parseBytes pw) (← parseBytes salt) (← logN.toNat?) (← r.toNat?) (← p.toNat?) (← dk.toNat?)))
  | "edPubToMontgomery", [pk] => do pure (showOpt (edPubToMontgomery (← parseBytes pk)))
  | "edSeedToCurveScalar", [seed] => do pure (showBytes (edSeedToCurveScalar (← parseBytes seed)))
  | "sshString", [b] => do pure (showBytes (sshString (← parseBytes b)))
  | "sshEd25519Wire", [pk] => do pure (showBytes (sshEd25519Wire (← parseBytes pk)))
  | "sshRsaWire", [e, n] => do pure (showBytes (sshRsaWire (← parseNatBE e) (← parseNatBE n)))
  | "mgf1Sha256", [seed, len] => do pure (showBytes (mgf1Sha256 (← parseBytes seed) (← len.toNat?)))
  | "rsaOaepEncrypt", [n, e, seed, msg, label] => do
      pure (showOpt (rsaOaepEncrypt (← parseNatBE n) (← parseNatBE e) (← parseBytes seed) (← parseBytes msg) (← parseBytes label)))
  | "rsaOaepDecrypt", [n, d, ct, label] => do
      pure (showOpt (rsaOaepDecrypt (← parseNatBE n) (← parseNatBE d) (← parseBytes ct) (← parseBytes label)))
  | "hex", [b] => do pure (showBytes ((hex (← parseBytes b)).toUTF8.toList))
  | "unhex", [] => some (showOpt (unhex ""))
  | "unhex", [s] => some (showOpt (unhex s))
  | _, _ => none

def benchInput (size : Nat) (i : Nat) : Bytes :=
  (List.range size).map fun j => (j * 131 + i * 7 + 1).toUInt8

def runBench (name : String) (size iters : Nat) (hot : Bool := false) : IO String := do
  let key : Bytes := (List.range 32).map (·.toUInt8)
  let nonce : Bytes := (List.range 12).map (·.toUInt8)
  -- inputs are built outside the timed region; a checksum of every output is kept so
  -- nothing can be optimised away
  let inputs := if hot then List.replicate iters (benchInput size 0) else (List.range iters).map (benchInput size)
  let inputs := if name == "aeadOpen" then inputs.map (aeadSeal key nonce) else inputs
  let mut acc : Nat := inputs.foldl (fun a l => a + l.length) 0
  let t0 ← IO.monoNanosNow
  for (inp, i) in inputs.zipIdx do
    let out : Bytes :=
      match name with
      | "sha256" => sha256 inp
      | "aeadSeal" => aeadSeal key nonce inp
      | "aeadOpen" => (aeadOpen key nonce inp).getD []
      | "scrypt" => scrypt (benchInput 16 i) (benchInput 16 (i+1)) size 8 1 32
      | "noop" => Impl.ofBA (Impl.toBA inp)
      | "toBA" => [(Impl.toBA inp).size.toUInt8]
      | "ofBA" => Impl.ofBA (Impl.zeros (size + i % 2))
      | "core" => Impl.ofBA (Impl.sha256BA (Impl.zeros (size + i % 2)))
      | "len" => [inp.length.toUInt8]
      | "aeadCore" => [(Impl.aeadSealBA (Impl.toBA key) (Impl.toBA nonce) (Impl.zeros (size + i % 2))).size.toUInt8]
      | "chachaCore" => [(Impl.chachaXor (Impl.toBA key) (Impl.toBA nonce) 1 (Impl.zeros (size + i % 2))).size.toUInt8]
      | "polyCore" => Impl.ofBA (Impl.poly1305 (Impl.toBA key) (Impl.zeros (size + i % 2)))
      | "x25519" => (x25519 (benchInput 32 i) (benchInput 32 (i+100))).getD []
      | _ => []
    acc := acc + out.length + (out.headD 0).toNat
  let t1 ← IO.monoNanosNow
  let us := (t1 - t0) / 1000
  let frac := toString (1000 + us % 1000) |>.drop 1
  return s!"ms={us / 1000}.{frac} acc={acc}"

partial def loop (stdin stdout : IO.FS.Stream) : IO Unit := do
  let line ← stdin.getLine
  if line.isEmpty then return
  let line := line.trimAsciiEnd.toString
  let toks := (line.splitOn " ").filter (· ≠ "")
  let resp ← match toks with
    | [] => pure "error: empty request"
    | ["bench", name, size, iters] =>
      match size.toNat?, iters.toNat? with
      | some s, some n => runBench name s n
      | _, _ => pure "error: bad bench args"
    | ["bench", name, size, iters, "hot"] =>
      match size.toNat?, iters.toNat? with
      | some s, some n => runBench name s n true
      | _, _ => pure "error: bad bench args"
    | op :: args =>
      match runOp op args with
      | some r => pure r
      | none => pure s!"error: bad request for op {op}"
  stdout.putStrLn resp
  stdout.flush
  loop stdin stdout

def main : IO Unit := do
  loop (← IO.getStdin) (← IO.getStdout)
